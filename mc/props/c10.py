"""C10 - private tables are isolated from the public table and from each other (E2 + heap-alias oracle).

Alphabet: create a private table (with mass+density), init of each lazy group on it, reads and
in-place / attribute mutations of its per-atom data, formula parsing with table=T, pickling atoms of
T, interleaved with first-touch events on the public table.
Invariants in every state: (I1) the public digest equals the canonical digest; (I2) every group
initialised on T and not mutated there serves the canonical values, a mutated group serves the
canonical mutated values (so T2 is unaffected by T1 and vice versa: I3); (I4) no mutable object is
reachable from the atoms of two different tables; (I5) formulas parsed with table=T contain only atoms
of T and pickled atoms of T are restored into T."""
import os, sys, hashlib, pickle
import numpy, pyparsing
from .. import histmc
from ..histmc import Event
from ..common import Acc, MachineryError, load_pt, pmap, rotate
from . import c09

META = dict(
    level="model_checking", engine="E2",
    technique="explicit-state exploration of interpreter histories by fork/replay with a heap-alias oracle "
              "(ids of mutable objects reachable from two tables must be disjoint)",
    rule=("state = interpreter after a history over {create T1/T2, init group on T, public first-touch events, read / "
          "mutate group on T, parse with table=T, pickle atoms of T}; key = C09's heap-shape key extended with the "
          "set of (table, group) mutated; every enabled event is executed in every explored state in its own fork and "
          "the invariants I1-I5 are evaluated in every state; non-trivial = every state but the initial one"),
    bound=dict(quick="closure of each of the 7 single-group sub-alphabets (13-14 events each, two private tables) "
                     "plus all histories of <= 2 events over the whole alphabet",
               thorough="closure of each single-group sub-alphabet with the full public digest in both read orders, closure of "
                        "four pairs of groups that share machinery, and all histories of <= 3 events over the whole alphabet"),
    assumptions=["independence assumption for the closures: three or more groups interfere only if some pair does (probed by "
                 "the bounded-depth run over the whole alphabet)",
                 "formula('aa:..', table=T) and xray_sld (no table keyword) are documented not to support private tables: excluded",
                 "data served from the class (a default assigned to Element / Isotope by an init function) counts in the alias "
                 "analysis for every table that lists the attribute among its initialised properties and every atom that has no "
                 "value of its own; for a table whose group was never initialised the placeholder is not 'data of its atoms'"],
    level_text="closure per sub-alphabet of the private/public table interaction state space on the real interpreter, "
               "with value digests and a heap-alias analysis in every state",
    level_note="canonical digests come from a pristine fork; key abstraction validated on second representatives",
)

GROUPS = ["radius", "crystal", "neutron", "activation", "xray", "lines", "mff"]
PAIRS = [("neutron", "activation"), ("xray", "lines"), ("radius", "crystal"), ("neutron", "xray")]
TABLES = ["T1", "T2"]

INIT_CODE = {
    "radius": "from periodictable import covalent_radius as _m\n_m.init(%s)",
    "crystal": "from periodictable import crystal_structure as _m\n_m.init(%s)",
    "neutron": "from periodictable import nsf as _m\n_m.init(%s)",
    "activation": "from periodictable import activation as _m\n_m.init(%s)",
    "xray": "from periodictable import xsf as _m\n_m.init(%s)",
    "lines": "from periodictable import xsf as _m\n_m.init_spectral_lines(%s)",
    "mff": "from periodictable import magnetic_ff as _m\n_m.init(%s)",
}
MUT_CODE = {
    "radius": "%(T)s.Fe.covalent_radius = 9.99\n%(T)s.Cu.covalent_radius_uncertainty = 0.5",
    "crystal": "%(T)s.Fe.crystal_structure['a'] = 99.0\n%(T)s.Cu.crystal_structure = {'symmetry': 'verif'}",
    "neutron": "%(T)s.Fe.neutron.b_c = 99.0\n%(T)s.Ni[58].neutron.absorption = 1e3\n%(T)s.Sm.neutron.nsf_table[1][0] = 7.0\n"
               "%(T)s.H.neutron.b_c = -1.0\n%(T)s.O.neutron.b_c_complex = 5.0-0.5j\n%(T)s.O.neutron.b_c = 5.0",
    "activation": "%(T)s.Fe[58].neutron_activation[0].thermalXS = 99.0\n%(T)s.Co[59].neutron_activation.append(%(T)s.Fe[58].neutron_activation[0])",
    "xray": "%(T)s.Fe.xray.newfield = 5\n%(T)s.Cu.xray.sftable[1][10] = 1234.5",
    "lines": "%(T)s.Cu.K_alpha = 9.99\n%(T)s.Fe.K_beta1 = 8.88",
    "mff": "%(T)s.Fe.magnetic_ff[2].j0 = (1.0, 0.0, 0.0, 0.0, 0.0, 0.0, 0.0)\n%(T)s.Ni.magnetic_ff[9] = %(T)s.Fe.magnetic_ff[3]",
}
PUB = {
    "radius": [("pub:get:radius", "pt.Fe.covalent_radius"), ("pub:iso:radius", "pt.Fe[56].covalent_radius_uncertainty"),
               ("pub:calc:radius", "pt.formula('Fe2O3').volume()")],
    "crystal": [("pub:get:crystal", "pt.Fe.crystal_structure"), ("pub:iso:crystal", "pt.Cu[63].crystal_structure"),
                ("pub:calc:crystal", "hasattr(pt.Og, 'crystal_structure')")],
    "neutron": [("pub:get:neutron", "pt.Fe.neutron"), ("pub:iso:neutron", "pt.Ni[58].neutron"),
                ("pub:calc:neutron", "pt.neutron_sld('H2O', density=1, wavelength=4.75)")],
    "activation": [("pub:get:activation", "hasattr(pt.Fe, 'neutron_activation')"),
                   ("pub:iso:activation", "[sorted(vars(a).items()) for a in pt.Fe[58].neutron_activation]"),
                   ("pub:calc:activation", c09.CALCS[6][2])],
    "xray": [("pub:get:xray", "pt.Fe.xray.scattering_factors(energy=8.0)"), ("pub:iso:xray", "pt.Fe[56].ion[2].xray.f0(1.0)"),
             ("pub:calc:xray", "pt.xray_sld('SiO2', density=2.2, energy=8.0)")],
    "lines": [("pub:get:lines", "pt.Cu.K_alpha"), ("pub:iso:lines", "pt.Cu[63].K_alpha_units"),
              ("pub:calc:lines", "from periodictable import xsf as _x\n_printed(_x.emission_table)")],
    "mff": [("pub:get:mff", "pt.Fe.magnetic_ff"), ("pub:iso:mff", "hasattr(pt.Fe[56], 'magnetic_ff')"),
            ("pub:calc:mff", "pt.Fe.magnetic_ff[2].j0_Q(1.0)")],
}
TCALC_CODE = ("from periodictable import nsf as _n\n_T = %s\n"
              "(_n.D2O_match('C3H4H[1]NO@1.29n', table=_T), _n.neutron_sld('H2O', density=1, wavelength=4.75, table=_T), "
              "_n.D2O_sld('C3H4H[1]NO@1.29n', volume_fraction=0.3, D2O_fraction=0.5, table=_T), "
              "_n.neutron_scattering('Fe2O3', density=5.2, table=_T))")
FORMULAS = ["H2O", "Fe[56]{2+}2O3", "D2O@1n", "CaCO3+6H2O", "10 wt% NaCl@2.16 // H2O@1", "(Fe{3+}(OH)3)2 T2O"]


def _tab(ns, name):
    from periodictable import core
    return core.PRIVATE_TABLES[name]


def ev_new(ns, name):
    from periodictable import core, mass, density
    T = core.PeriodicTable(name)
    mass.init(T)
    density.init(T)
    ns[name] = T
    return "created"


def ev_formula(ns, name):
    pt = ns["pt"]
    from periodictable import core
    T = pt.elements if name == "public" else _tab(ns, name)
    tname = "public" if name == "public" else name
    bad = []
    def walk(s):
        for count, frag in s:
            if isinstance(frag, (list, tuple)):
                walk(frag)
            else:
                a = frag
                q = getattr(a, "charge", 0)
                base = a.element if isinstance(a, core.Ion) else a
                if isinstance(base, core.Isotope):
                    own = T[base.number][base.isotope]
                else:
                    own = T[base.number]
                if q:
                    own = own.ion[q]
                if own is not a:
                    bad.append(str(a))
    made = [pt.formula(s, table=T) for s in FORMULAS]
    # the mixture constructors parse their string components with the same table= keyword
    made.append(pt.mix_by_weight("H2O@1", 2, "D2O@1n", 1, table=T))
    made.append(pt.mix_by_volume("H2O@1", 1, "Fe[56]{2+}2O3@5", 3, table=T))
    made.append(pt.mix_by_volume(pt.formula("NaCl@2.16", table=T), 1, "D2O@1.1", 1, table=T))
    for f in made:
        walk(f.structure)
        for a in f.atoms:
            el = a
            while not isinstance(el, core.Element):
                el = el.element
            if el.table != tname:
                bad.append("%s@%s" % (a, el.table))
    return "ok" if not bad else "foreign atoms: %s" % sorted(set(bad))[:5]


def ev_pickle(ns, name):
    T = _tab(ns, name)
    bad = []
    for a in (T.Fe, T.Fe[56], T.Fe.ion[2], T.Fe[56].ion[3], T.D, T.D.ion[1], T[0], T.Og):
        for proto in (0, 2, pickle.HIGHEST_PROTOCOL):
            b = pickle.loads(pickle.dumps(a, proto))
            if b is not a:
                bad.append(str(a))
    return "ok" if not bad else "restored elsewhere: %s" % sorted(set(bad))


def ev_route(ns, name):
    """Every lookup route of a table hands out that table's own atom objects."""
    pt = ns["pt"]
    from periodictable import core
    T = pt.elements if name == "public" else _tab(ns, name)
    bad = []
    def same(route, got, own):
        if got is not own:
            bad.append(route)
    for el in T:
        Z = el.number
        if el.table != name:
            bad.append("iter:%s@%s" % (el.symbol, el.table))
        same("T[Z]", T[Z], el)
        same("T.symbol()", T.symbol(el.symbol), el)
        same("T.name()", T.name(el.name), el)
        same("T.<symbol>", getattr(T, el.symbol), el)
        same("T.isotope(symbol)", T.isotope(el.symbol), el)
        if el.isotopes:
            A = el.isotopes[0]
            same("T.isotope('A-X')", T.isotope("%d-%s" % (A, el.symbol)), el[A])
    for sym, nm, A in (("D", "deuterium", 2), ("T", "tritium", 3)):
        own = T.H[A]
        same("T.%s" % sym, getattr(T, sym), own)
        same("T.symbol(%r)" % sym, T.symbol(sym), own)
        same("T.name(%r)" % nm, T.name(nm), own)
        same("T.isotope(%r)" % sym, T.isotope(sym), own)
        same("T[1][%d]" % A, T[1][A], own)
    return "ok" if not bad else "foreign or different atoms via: %s" % sorted(set(bad))[:6]


def ev_badparse(ns, name):
    """Error path: strings the parser must reject, parsed with this table (a failed call must leave nothing behind)."""
    pt = ns["pt"]
    T = pt.elements if name == "public" else _tab(ns, name)
    out = []
    for s in ("Xx2O", "H2O)", "Fe[999]", "5 wt% Qq // H2O@1"):
        try:
            pt.formula(s, table=T)
            out.append("accepted:" + s)
        except Exception:
            pass
    try:
        pt.mix_by_weight("H2O@1", 1, "Zz", 1, table=T)
        out.append("accepted:mix")
    except Exception:
        pass
    return "rejected" if not out else ",".join(out)


def ev_read(ns, name, g):
    T = _tab(ns, name)
    d = c09.digest_table(ns["pt"], T, 0, groups=[g])
    return d[0][1]


def ev_mut(ns, name, g):
    T = _tab(ns, name)
    exec(MUT_CODE[g] % dict(T="T"), dict(T=T))
    ns.setdefault("_mutated", set()).add((name, g))
    return "mutated"


class PrivModel(histmc.HistModel):
    digest_orders = (0, 1)

    def __init__(self, groups=GROUPS, tables=TABLES, digest_groups=None, digest_orders=(0, 1)):
        self.groups, self.tables = list(groups), list(tables)
        self.digest_groups = digest_groups      # None = every group of the public table is digested
        self.digest_orders = tuple(digest_orders)
        self._events = None
        self._base = c09.LazyModel()

    def namespace(self):
        pt = load_pt()
        return dict(pt=pt, _printed=c09._printed, _new=ev_new, _formula=ev_formula, _pickle=ev_pickle, _route=ev_route, _badparse=ev_badparse,
                    _read=ev_read, _mut=ev_mut, _mutated=set())

    def events(self):
        if self._events is None:
            evs = []
            for t in self.tables:
                evs.append(Event("new:%s" % t, "_new(globals(), %r)" % t, True, "table"))
            for g in self.groups:
                for t in self.tables:
                    evs.append(Event("init:%s:%s" % (g, t), INIT_CODE[g] % ("globals()[%r]" % t) + "\n'done'", True, g))
                for name, code in PUB[g]:
                    evs.append(Event(name, code, True, g))
                if g == "neutron":
                    # calculators that take a table= keyword, on the private tables and on the public one
                    for t in self.tables:
                        evs.append(Event("tcalc:neutron:%s" % t, TCALC_CODE % ("globals()[%r]" % t), True, g))
                    evs.append(Event("pub:tcalc:neutron", TCALC_CODE % "pt.elements", True, g))
                for t in self.tables:
                    evs.append(Event("read:%s:%s" % (g, t), "_read(globals(), %r, %r)" % (t, g), True, g))
                    evs.append(Event("mut:%s:%s" % (g, t), "_mut(globals(), %r, %r)" % (t, g), True, g))
            evs.append(Event("formula:T1", "_formula(globals(), 'T1')", True, "formula"))
            evs.append(Event("formula:public", "_formula(globals(), 'public')", True, "formula"))
            evs.append(Event("pickle:T1", "_pickle(globals(), 'T1')", True, "pickle"))
            # every lookup route (index, symbol, name, attribute, isotope string, D/T aliases) on a private and on the
            # public table, in both orders
            # a parse that fails (with a private table, with the public one), then everything else
            evs.append(Event("badparse:T1", "_badparse(globals(), 'T1')", True, "formula"))
            evs.append(Event("badparse:public", "_badparse(globals(), 'public')", True, "formula"))
            evs.append(Event("route:T1", "_route(globals(), 'T1')", True, "route"))
            evs.append(Event("route:public", "_route(globals(), 'public')", True, "route"))
            self._events = evs
        return self._events

    def enabled(self, hist, ev):
        n = ev.name
        parts = n.split(":")
        if parts[0] == "new":
            return n not in hist
        if parts[0] == "tcalc":
            return "init:%s:%s" % (parts[1], parts[2]) in hist
        if parts[0] in ("init", "read", "mut"):
            g, t = parts[1], parts[2]
            if "new:%s" % t not in hist:
                return False
            if parts[0] == "init":
                if n in hist:
                    return False
                if g == "neutron":
                    return True      # mass and density are initialised by new:T
                return True
            if "init:%s:%s" % (g, t) not in hist:
                return False
            if parts[0] == "mut":
                return n not in hist
            return True
        if n in ("formula:T1", "pickle:T1", "route:T1", "badparse:T1"):
            return "new:T1" in hist
        return True

    def observe(self, ev, ns):
        try:
            return "ok:" + c09.norm(histmc.run_code(ev.code, ns))
        except Exception as e:
            return "EXC:%s:%s" % (type(e).__name__, str(e)[:200])

    def key(self, ns):
        return hashlib.sha1((self._base.key(ns) + repr(sorted(ns.get("_mutated", ())))).encode()).hexdigest()[:20]

    def digest(self, ns, order):
        pt = ns["pt"]
        from periodictable import core
        out = [("public", tuple(c09.digest_table(pt, pt.elements, order, groups=self.digest_groups)))]
        live = [(n, T) for n, T in sorted(core.PRIVATE_TABLES.items()) if n != "public"]
        for n, T in live:
            gs = []
            for g in GROUPS:
                pname = {"radius": "covalent_radius", "crystal": "crystal_structure", "lines": None, "mff": "magnetic_ff",
                         "activation": "neutron_activation"}.get(g, g)
                inited = (pname in T.properties) if pname else ("init:lines:%s" % n in ns.get("_hist", ()) or _lines_inited(T))
                if inited:
                    gs.append(g)
            out.append((n, (tuple(c09.digest_table(pt, T, order, groups=gs, calcs=False)) if gs else ())
                        + (("base", base_digest(T)),)))
        out.append(("alias", tuple(alias_report([("public", pt.elements)] + live))))
        return tuple(out)


def base_digest(T):
    """Digest of what every table serves from the start: names, symbols, charge states, masses,
    abundances, densities, isotope lists (customisation of these is not among the events)."""
    h = hashlib.sha1()
    for el in T:
        h.update(repr((el.number, el.symbol, el.name, tuple(el.ions), c09.norm(el.mass), c09.norm(el._mass_unc),
                       c09.norm(el.density), tuple(el.isotopes))).encode())
        for iso in el:
            h.update(repr((iso.isotope, c09.norm(iso.mass), c09.norm(iso.abundance), tuple(iso.ions))).encode())
    return h.hexdigest()[:16]


def _lines_inited(T):
    return "K_alpha" in T.Cu.__dict__


IMMUTABLE = (str, bytes, int, float, complex, bool, type(None), frozenset)


def reachable_mutables(T):
    """ids of mutable objects reachable from the instance dictionaries of the atoms of table T
    (atoms, IonSets and the table itself are the per-table skeleton and are not counted)."""
    from periodictable import core
    import numpy as np
    seen = {}
    skeleton = (core.Element, core.Isotope, core.Ion, core.IonSet, core.PeriodicTable)
    def visit(o, path, depth):
        if isinstance(o, IMMUTABLE) or isinstance(o, skeleton) or isinstance(o, type) or callable(o):
            return
        if id(o) in seen or depth > 6:
            return
        if isinstance(o, tuple):
            for i, x in enumerate(o):
                visit(x, path, depth + 1)
            return
        seen[id(o)] = (path, type(o).__name__)
        if isinstance(o, dict):
            for k, v in o.items():
                visit(v, path, depth + 1)
        elif isinstance(o, (list, set)):
            for v in o:
                visit(v, path, depth + 1)
        elif isinstance(o, np.ndarray):
            if o.base is not None:
                visit(o.base, path, depth + 1)
        elif hasattr(o, "__dict__"):
            for k, v in vars(o).items():
                visit(v, path, depth + 1)
    # data served from the CLASS (a default assigned by an init function: a 'no data' record, an empty list) belongs
    # to every table at once; it counts for table T when the attribute is one of T's initialised properties and the
    # atom has no value of its own that hides it
    props = set(getattr(T, "properties", ()))
    class_data = {}
    def class_level(cls):
        if cls not in class_data:
            found = []
            for klass in cls.__mro__:
                for k, v in vars(klass).items():
                    if k in props and not k.startswith("__") and not hasattr(type(v), "__get__") and not isinstance(v, IMMUTABLE) \
                            and not isinstance(v, type) and not any(k == f[0] for f in found):
                        found.append((k, v))
            class_data[cls] = found
        return class_data[cls]
    def atom(a, name):
        for k, v in a.__dict__.items():
            if k in ("element", "ion"):
                continue
            visit(v, "%s.%s" % (name, k), 0)
        for k, v in class_level(type(a)):
            if k not in a.__dict__ and not isinstance(a, core.Ion):
                visit(v, "%s.%s" % (name, k), 0)
    for el in T:
        atom(el, el.symbol)
        for q, ion in el.ion.ionset.items():
            atom(ion, "%s{%d}" % (el.symbol, q))
        for A, iso in el._isotopes.items():
            atom(iso, "%s[%d]" % (el.symbol, A))
            for q, ion in iso.ion.ionset.items():
                atom(ion, "%s[%d]{%d}" % (el.symbol, A, q))
    return seen


def alias_report(tables):
    maps = [(n, reachable_mutables(T)) for n, T in tables]
    out = []
    for i in range(len(maps)):
        for j in range(i + 1, len(maps)):
            common = set(maps[i][1]) & set(maps[j][1])
            if common:
                kinds = sorted(set(maps[i][1][c][0].split(".", 1)[1] + ":" + maps[i][1][c][1] for c in common))
                ex = sorted(maps[i][1][c][0] for c in common)[:3]
                out.append((maps[i][0], maps[j][0], len(common), tuple(kinds[:4]), tuple(ex)))
    return out


# ------------------------------------------------------------------ oracle
def canonical(model):
    def work():
        ns = model.namespace()
        base = c09.LazyModel()
        bevs = dict((e.name, e) for e in base.events())
        for n in c09.CANONICAL:
            base.observe(bevs[n], ns)
        obs = {}
        for e in model.events():
            if e.name.startswith("pub:"):
                obs[e.name] = histmc.in_fork(lambda e=e: model.observe(e, ns))
        pub = [histmc.in_fork(lambda o=o: tuple(c09.digest_table(ns["pt"], ns["pt"].elements, o))) for o in (0, 1)]
        # what a private table must serve: the values of the public table (atoms only, no public calculators)
        def public_atoms():
            pt = ns["pt"]
            clean = {}
            for o in (0, 1):
                clean[o] = dict(c09.digest_table(pt, pt.elements, o, calcs=False))
                clean[o]["base"] = base_digest(pt.elements)
            return clean
        clean = histmc.in_fork(public_atoms)
        # canonical mutated values: a table created after the public table is fully loaded, one group at a time
        def priv():
            ev_new(ns, "Tc")
            T = ns["Tc"]
            mutated, problems = {0: {}, 1: {}}, []
            for g in GROUPS:
                try:
                    exec(INIT_CODE[g] % "T", dict(T=T))
                    exec(MUT_CODE[g] % dict(T="T"), dict(T=T))
                    if g == "neutron":
                        ns["Tc"] = T
                        mutated["tcalc"] = model.observe(Event("x", TCALC_CODE % "globals()['Tc']"), ns)
                    for o in (0, 1):
                        mutated[o][g] = dict(c09.digest_table(ns["pt"], T, o, groups=[g], calcs=False))[g]
                except Exception as e:
                    problems.append((g, "%s: %s" % (type(e).__name__, e)))
                    for o in (0, 1):
                        mutated[o][g] = None
            return mutated, problems
        mutated, problems = histmc.in_fork(priv)
        return obs, pub, clean, mutated, problems
    return histmc.in_fork(work)


class Oracle(object):
    def __init__(self, model, acc, can):
        self.model, self.acc = model, acc
        self.can_obs, self.can_pub, self.can_clean, self.can_mut, self.can_problems = can
        self.evs = dict((e.name, e) for e in list(PrivModel(GROUPS).events()) + list(model.events()))

    def expected_obs(self, name, hist):
        p = name.split(":")
        if p[0] == "pub":
            return self.can_obs[name]
        if p[0] == "tcalc":
            if ("mut:neutron:%s" % p[2]) in hist:
                return self.can_mut.get("tcalc")
            return self.can_obs["pub:tcalc:neutron"]       # an uncustomised private table computes what the public one does
        if p[0] == "new":
            return "ok:'created'"
        if p[0] == "init":
            return "ok:'done'"
        if p[0] == "mut":
            return "ok:'mutated'"
        if p[0] in ("formula", "pickle", "route"):
            return "ok:'ok'"
        if p[0] == "badparse":
            return "ok:'rejected'"
        if p[0] == "read":
            g, t = p[1], p[2]
            src = self.can_mut if ("mut:%s:%s" % (g, t)) in hist else self.can_clean
            return "ok:" + repr(src[0][g])
        raise MachineryError(name)

    def snippet(self, hist, ev=None):
        lines = ["import periodictable as pt, pickle", "from periodictable import core, mass, density", ""]
        for n in list(hist) + ([ev] if ev else []):
            p = n.split(":")
            if p[0] == "new":
                lines.append("%s = core.PeriodicTable(%r); mass.init(%s); density.init(%s)" % (p[1], p[1], p[1], p[1]))
            elif p[0] == "init":
                lines += (INIT_CODE[p[1]] % p[2]).split("\n")
            elif p[0] == "mut":
                lines += (MUT_CODE[p[1]] % dict(T=p[2])).split("\n")
            elif p[0] == "pub":
                code = self.evs[n].code.split("\n")
                lines += code[:-1] + ["print(%r, repr(%s))" % (n, code[-1])] if not code[-1].startswith("_printed") else ["pass"]
            elif p[0] == "read":
                lines.append("print('read %s of %s:', %s.Fe.%s if hasattr(%s.Fe, %r) else None)" % (
                    p[1], p[2], p[2], READ_ATTR[p[1]], p[2], READ_ATTR[p[1]]))
            elif p[0] == "tcalc" or n == "pub:tcalc:neutron":
                T = "pt.elements" if p[0] == "pub" else p[2]
                lines.append("from periodictable import nsf; print(nsf.D2O_match('C3H4H[1]NO@1.29n', table=%s), "
                             "nsf.neutron_sld('H2O', density=1, wavelength=4.75, table=%s))" % (T, T))
            elif p[0] == "formula":
                T = "pt.elements" if p[1] == "public" else p[1]
                lines.append("print([(a, a.table if hasattr(a,'table') else None) for a in pt.formula('Fe[56]{2+}2O3', table=%s).atoms])" % T)
            elif p[0] == "badparse":
                T = "pt.elements" if p[1] == "public" else p[1]
                lines += ["try: pt.formula('Xx2O', table=%s)" % T, "except Exception as e: print('rejected:', e)"]
            elif p[0] == "route":
                T = "pt.elements" if p[1] == "public" else p[1]
                lines.append("print([(a, a.table) for a in (%s.name('iron'), %s.symbol('Fe'), %s[26], %s.isotope('Fe'), "
                             "%s.name('deuterium').element)])" % (T, T, T, T, T))
            elif p[0] == "pickle":
                lines.append("print(pickle.loads(pickle.dumps(%s.Fe[56].ion[3])) is %s.Fe[56].ion[3])" % (p[1], p[1]))
        lines.append("print('public:', pt.Fe.covalent_radius, pt.Fe.crystal_structure, pt.Fe.neutron.b_c, pt.Cu.K_alpha, "
                     "pt.Cu.K_alpha_units, pt.neutron_sld('H2O', density=1))")
        return "\n".join(lines) + "\n"

    def __call__(self, key, res):
        acc = self.acc
        hist = res["hist"]
        bad = False
        acc.states += 1
        if hist:
            acc.nontrivial += 1
        for name, obs in [(e, o) for e, o, _ in res["edges"]] + list(res["probes"]):
            acc.transitions += 1
            acc.evaluations += 1
            want = self.expected_obs(name, hist)
            if obs != want:
                bad = True
                p = name.split(":")
                kind = c09.failure_kind(want, obs) if p[0] in ("pub",) else (
                    "raises-" + obs.split(":")[1] if obs.startswith("EXC:") else "differs")
                who = "public" if p[0] == "pub" else p[0]
                if want is None:
                    want = "<canonical customised table could not be built>"
                acc.violation("%s:%s:%s" % (who, self.evs[name].group, kind),
                              dict(history=list(hist), event=name), expected=want[:300], observed=obs[:300],
                              standalone=self.snippet(hist, name))
            else:
                acc.outcome("obs-ok:" + name.split(":")[0])
        for o, d in zip(self.model.digest_orders, res["digests"] or []):
            acc.evaluations += 1
            d = dict(d)
            # I1
            pub = dict(d["public"])
            for g, h in dict(self.can_pub[o]).items():
                if g in pub and pub.get(g) != h:
                    bad = True
                    acc.violation("I1-public-digest:%s" % g, dict(history=list(hist), event=None, order=o, group=g),
                                  expected="public %s values = canonical" % g, observed="differ",
                                  standalone=self.snippet(hist))
            # I2 / I3
            for t in self.model.tables:
                if t not in d:
                    continue
                for g, h in d[t]:
                    src = self.can_mut if ("mut:%s:%s" % (g, t)) in hist else self.can_clean
                    if src[o][g] != h:
                        bad = True
                        other = [x for x in hist if x.split(":")[0] in ("mut",) and not x.endswith(":" + t)]
                        rule = "I3-other-table-mutation-visible" if other and ("mut:%s:%s" % (g, t)) not in hist \
                            and self.can_mut[o][g] == h else "I2-private-digest"
                        acc.violation("%s:%s" % (rule, g), dict(history=list(hist), event=None, order=o, group=g, table=t),
                                      expected="%s of %s = canonical %s values" % (g, t, "mutated" if src is self.can_mut else "clean"),
                                      observed="differ", standalone=self.snippet(hist))
            # I4
            for (a, b, n, kinds, ex) in d.get("alias", ()):
                bad = True
                for kd in kinds:
                    acc.violation("I4-shared-mutable:%s" % kd, dict(history=list(hist), event=None, order=o, tables=[a, b]),
                                  expected="no mutable object reachable from both %s and %s" % (a, b),
                                  observed="%d shared objects, e.g. %s" % (n, list(ex)), standalone=self.snippet(hist))
        if acc.states % 53 == 1:
            acc.sample(dict(history=list(hist), key=key))
        return bad


READ_ATTR = dict(radius="covalent_radius", crystal="crystal_structure", neutron="neutron", activation="neutron_activation",
                 xray="xray", lines="K_alpha", mff="magnetic_ff")


def explore_sub(args):
    """One closure / bounded run in its own forked coordinator (which stays pristine)."""
    label, groups, depth, jobs, quick = args
    model = PrivModel(groups, digest_groups=(groups if (quick and len(groups) < len(GROUPS)) else None),
                      digest_orders=((0,) if quick else (0, 1)))
    acc = Acc()
    can = canonical(PrivModel(GROUPS))
    oracle = Oracle(model, acc, can)
    for g, msg in can[4]:
        if g in groups:
            hist = ["pub:get:%s" % x for x in GROUPS] + ["new:T1", "init:%s:T1" % g, "mut:%s:T1" % g]
            acc.violation("private-table-after-public-load:%s:raises" % g, dict(history=hist, event=None, group=g),
                          expected="a private table initialised after the public table was loaded can be initialised "
                                   "and customised", observed=msg, standalone=oracle.snippet(hist))
    ex = histmc.Explorer(model, jobs).run(depth=depth, on_state=oracle, probe_levels=None)
    if ex.nondeterminism:
        raise MachineryError("replay reached a different key: %r" % ex.nondeterminism[:2])
    nsec = ex.validate_seconds(max_level=(2 if quick else None), oracle=oracle)   # second representatives are judged too
    if ex.key_conflicts:
        raise MachineryError("canonical key too coarse (%s): %r" % (label, ex.key_conflicts[:2]))
    acc.info["states:" + label] = len(ex.rep)
    acc.info["closed:" + label] = bool(ex.closed)
    acc.count("second_representatives_validated", nsec)
    if depth is None and not ex.closed and ex.bad_states == 0:
        acc.cap("%s not closed" % label)
    return acc


def run(ctx):
    plans = []
    if ctx.quick:
        for g in GROUPS:
            plans.append(("closure-" + g, [g], None, 3, True))
        plans.append(("depth2-all", GROUPS, 2, 6, True))
    else:
        # single-group closures with the full public digest in both read orders, the pairs of groups that share
        # machinery (same module, same registration kind, same loader mechanism), and depth 3 over everything.
        # (All 21 pair closures are up to 49^2 states each: measured > 1 h on 16 cores, so the pairs are selected.)
        for g in GROUPS:
            plans.append(("closure-" + g, [g], None, 4, False))
        for g, h in PAIRS:
            plans.append(("closure-%s+%s" % (g, h), [g, h], None, 4, False))
        plans.append(("depth3-all", GROUPS, 3, 8, False))
    # every plan is an explorer with its own workers: bound the product (outer x inner) by the machine
    outer = max(1, min(len(plans), ctx.jobs // (3 if ctx.quick else 4)))
    for r in pmap(explore_sub, rotate(plans, ctx.seed), outer, "C10 plans", always_fork=True):
        ctx.acc.merge(r)
    ctx.acc.traces = ctx.acc.transitions   # every explored transition was executed on the real interpreter
    # trace validation: replay the shortest history per violation and a fixed set of histories in new interpreters
    model = PrivModel(GROUPS)
    can = canonical(model)
    orc = Oracle(model, Acc(), can)
    hists = [("new:T1", "init:crystal:T1", "mut:crystal:T1", "pub:get:crystal"),
             ("new:T1", "init:neutron:T1", "pub:calc:neutron", "mut:neutron:T1", "pub:get:neutron"),
             ("pub:get:lines", "new:T1", "init:lines:T1", "read:lines:T1"),
             ("new:T1", "new:T2", "init:mff:T1", "init:mff:T2", "mut:mff:T1", "read:mff:T2", "pub:get:mff")]
    def validate(h):
        return h, histmc.fresh_replay("mc.props.c10", "PrivModel", h)
    for h, got in pmap(validate, hists, ctx.jobs, "fresh-replay"):
        ctx.acc.count("fresh_interpreter_replays")
        for i, (n, g) in enumerate(zip(h, got)):
            want = orc.expected_obs(n, h[:i])
            if g != want:
                ctx.acc.violation("fresh:%s" % n.split(":")[0] + ":" + model.events()[0].group, dict(history=list(h[:i]), event=n, fresh=True),
                                  expected=want[:300], observed=g[:300], standalone=orc.snippet(h[:i], n))


def replay(ctx, case, signature=None):
    model = PrivModel(GROUPS)
    can = canonical(model)
    acc = ctx.acc
    orc = Oracle(model, acc, can)
    hist = tuple(case["history"])
    res = histmc.expand_many(model, [hist], 4, None)[0]
    tmp = Acc()
    orc.acc = tmp
    orc(None, res)
    for sig, rec in tmp.viol.items():
        if signature is None or sig == signature:
            acc.viol[sig] = rec
