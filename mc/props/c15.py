"""C15 - decay_time returns the time at which the total activity reaches the target
(E1 over samples x rest-time lists x targets; DESIGN section 4, C15 and section 7).

State  = (formula, mass, environment, exposure, rest-time list, target).  A configuration
         (formula, mass, environment, exposure) is activated once per rest-time list on a fresh Sample;
         every target is a multiple of the activity at removal A0 of that configuration, including the
         boundary multipliers 1-1e-9, 1, 1+1e-9.  Besides the fixed rest-time lists every configuration
         gets two lists placed at the code-visible break points of back-extrapolation: a single rest time
         at which the shortest-lived product has decayed by exp(-705) (still representable, above it
         exp(+x) overflows at 709.78) and by exp(-730) (product still non-zero, exp(+x) overflows).
         Besides the fixed samples the alphabet holds FORCED COLLISIONS: every pair of rows of activation.dat
         (independent reader) that produce the same nuclide with different tabulated half-lives (19 pairs, 15
         nuclides) as a two-component sample in both component orders - the two target isotopes 1:1, the two
         target isotopes balanced so that both rows contribute the same activity of the shared nuclide, and
         the two natural elements 1:1.  Each product row decays with its OWN half-life.
Oracle = the removal activities A_i(0) and half-lives T_i come from the oracle's OWN
         calculate_activation(env, exposure, rest_times=[0]) on a SECOND Sample of the same material
         (their correctness is C14; an entry at a later rest time is never un-decayed).  With
         S(t) = sum_i A_i(0) 2^(-t/T_i), evaluated by the oracle:
           (1) the only permitted non-return is RuntimeError;
           (2) a returned t is a real number, t >= 0;
           (3) t == 0  iff  A0 <= target  (targets within 1e-12 relative of A0 may go either way);
           (4) a returned t > 0 satisfies |S(t) - target| <= 0.1 % target;
           (5) for every rest-time list of the same configuration and target the outcome is the same:
               both RuntimeError, or times equal to 1e-6 relative (or, where t is ill-conditioned
               because the target is within 1e-9 of A0, activities S(t) equal to 1e-10 relative).
               Only outcomes that passed (1)-(4) are compared (nothing is explored beyond a violation).
HISTORIES of several Sample objects in one process (reused / duplicated objects): after one Sample was created
         from the formula string, every sequence of events up to the depth bound over at most three objects -
         new Sample (from the string, or from ONE Formula object shared by all such samples), copy.copy(i),
         copy.deepcopy(i), activate(i, A | B) (two parameter sets that differ in mass, environment, exposure and
         rest times; the list of B does not contain 0; the mass is assigned to the public attribute), ask(i)
         (decay_time for every target multiplier) - followed by ask(i) of one object.  Oracle (6): the answer
         equals the answer of a FRESH Sample that was given the object's own last activation only (same
         comparison as (5)).  An answer is claimed for an object that was activated itself and for a deep copy
         of such an object; what a shallow copy answers before it is activated itself is not claimed.  A
         deviation is named after the activation it is the right answer for and the relation of the two objects:
         "decay_time-answers-for-the-activation-of-another-sample:<shallow-copy | deep-copy | separately-created-
         sample>", "decay_time-answers-for-an-earlier-activation-of-the-sample", otherwise
         "decay_time-differs-from-fresh-sample:<after-an-earlier-decay_time-question | sample-activated-more-than-once | another-sample-was-activated:
         <relation> | one-sample-activated>"; no history that extends a violating one is explored.
OPTIONS AND UPDATES (every optional argument of calculate_activation at a non-default value; every object the
         Sample refers to updated by the caller between the calculation and the question): for every (formula, mass,
         environment) every option = abundance {argument omitted, NIST2001_isotopic_abundance passed, IAEA1987_
         isotopic_abundance, a caller-owned callable object that gives all isotopes of an element equal shares} x
         exposure {argument omitted, values} x rest times {(0,1,24,360) as list / tuple / numpy array / argument omitted,
         (24,0.75) and (0,) as list / tuple / numpy array} is calculated on fresh objects and asked for every target
         multiplier; then, again on fresh objects, every single update kind that applies - env.fluence scaled,
         env.Cd_ratio changed, env.fast_ratio changed, the environment object used (unchanged / changed) for the
         calculation of ANOTHER Sample, sample.environment replaced by another environment object, the rest-time
         list / array edited in place (values changed and reversed; list extended at both ends), the state of the
         caller's abundance callable changed - is applied after calculate_activation and before decay_time.
         Oracle (7): decay_time answers for the activation AS IT WAS CALCULATED: the removal activities are column
         'rest time 0' of the activity table the Sample itself reports at the time of the question (if 0 was not
         requested: the table of the same calculation from fresh equal objects with rest_times=[0], as in the grid);
         (1)-(4) are judged against them, and after an update the answer equals the answer without the update (same
         comparison as (5)).  The other Sample that used the same environment object is judged against its own table.
         Assigning to sample.mass or sample.exposure after the calculation is EXECUTED and counted in the outcome
         histogram but NOT judged (the statement does not say which calculation the Sample stands for after the
         caller changed one of its input attributes without recalculating).  Names: "decay_time-answers-for-the-
         default-abundance-function" (the Sample of the same calculation without the abundance argument passes, and
         asked for this very target it gives - rightly for its own table - the answer observed, which is a positive
         time, or a 0 while a fixed small probe calculation shows the same for a positive time; a violation of an
         abundance option that this probe does not explain, and one of the other Sample that used the environment,
         keeps the neutral name of the grid, the other Sample's "decay_time-answers-for-the-activation-of-another-
         sample:same-environment-object" if it gives the first Sample's right answer), "decay_time-answers-for-objects-updated-after-the-calculation:
         <environment-object-updated | environment-object-used-by-another-sample | environment-attribute-of-the-
         sample-replaced | rest-times-object-edited-in-place | abundance-callable-updated>" (the answer is that of a
         fresh calculation from the objects as they are now), "decay_time-differs-from-activity-table:after-<update
         class>" if it is not (the same calculation without the update passes), "rest-times-as-<numpy-
         array | tuple | default-argument>:<symptom>" when the same calculation with the rest times passed as a list
         passes; a symptom that a control option (rest times as list / abundance argument omitted) shows as well for
         the same target is reported there only; updates of an option whose plain calculation violates are not explored.
Signatures name the CAUSE.  The verdict never depends on the attribution; the attribution uses the
input class and read-only cause probes:
  * "information lost" (class Lost): the activities the Sample holds at its smallest rest time To,
    multiplied by 2^(+To/T_i), do not reproduce the removal activities (a product has underflowed to 0.0,
    lost bits as a denormal, or exp(+lambda To) overflows / is within exp(70) of overflowing so that no
    t < 0 can be evaluated) -> "rest-list-dependence:<symptom>".  Counterfactual control: a symptom
    that the list containing 0 shows as well (same configuration and target) is not attributed to it;
  * "early exit": the same Sample also returns 0 for the target 0.75 A0 -> the early-exit test, not the
    closeness of the target to A0, is the cause -> "early-exit-double-subtracts-target";
  * "derivative": a derivative carrying the factor (To-1) vanishes identically at To == 1, so a fixed
    small sample with rest times [1] raises ZeroDivisionError in Newton's first step; only if that probe
    fires are ZeroDivisionError / OverflowError / RuntimeError-where-another-list-returns / differing
    times at a non-zero smallest rest time (nothing lost) named "derivative-factor-To-minus-1:<symptom>";
  * a product whose activity at removal is exactly 0.0 (two-step capture products at low fluence) and a
    ZeroDivisionError -> "initial-guess-divides-by-zero-activity-product";
  * an inaccurate time for a sample in which one nuclide is produced by two table rows that carry different
    half-lives (see collision_samples), where the returned time IS accurate for the sum in which all rows of
    a nuclide decay with one of its half-lives (products merged by name) -> "inaccurate-time-returned:
    nuclide-from-rows-with-different-half-lives";
  * anything else keeps a neutral name made of the violated clause and the input class
    ("negative-time-returned", "inaccurate-time-returned", "zero-returned-above-target[:target-just-
    below-removal-activity]", "positive-time-at-or-below-target", "exception:<class>",
    "answer-depends-on-rest-list:<symptom>").
The attribution was verified by repairing the slips one at a time on scratch copies (see the build
report): each repair removes exactly its own signatures."""
import math
import numbers
import decimal
from ..common import Acc, load_pt, rotate, MachineryError
from ..ref import activation as RA

LN2 = math.log(2.0)
BAND = 1e-12          # |A0 - target| <= BAND*A0: t == 0 and t > 0 are both accepted
ACCURACY = 1e-3       # "within 0.1 % of the target"
ROUND = 1e-12         # rounding allowance between the library's sum and the oracle's sum
T_REL = 1e-6          # agreement of two returned times
S_REL = 1e-10         # agreement of the activities at two returned times (ill-conditioned t)
EXP_MAX = 709.0       # exp(x) overflows at 709.78
NEAR_MAX = 640.0      # cause probe: back-extrapolation this close to the overflow has no room for t < 0

class ReRest(tuple):
    """A rest-time list whose Sample object was ALREADY activated once before (other exposure, other
    rest times) and is activated again: the answer must be that of a fresh sample."""
    reactivated = True


SAMPLES = dict(
    quick=("Co30Fe70", "Au", "NaCl", "Eu", "Co", "SiO2", "Hf", "Lu2O3", "Cu[63]0.5Cu0.5", "Co[59]Co"),
    thorough=("Co30Fe70", "Au", "NaCl", "Eu", "Co", "SiO2", "In", "Hf", "Ag", "Lu2O3", "CdTe", "B4C",
              "Cu[63]0.5Cu0.5", "Co[59]Co", "Li[6]0.3Li0.7F"),
)
# the two tiers differ only in the samples; the grid below costs seconds
MASSES = (1e-3, 1.0, 10.0, 1e3)
# forced collisions: samples in which ONE nuclide is produced by two table rows that carry DIFFERENT half-lives
# (derived from activation.dat by the independent reader, see collision_samples); the mass only scales
COLLISION_MASSES = dict(quick=(1.0,), thorough=(1e-3, 1.0))
BALANCE_ENV = (1e12, 1.0, 10.0)     # the environment / exposure at which the "balanced" stoichiometry makes the
BALANCE_EXPOSURE = 10.0             # two rows contribute the same activity of the shared nuclide at removal
ENVS = ((1e5, 70.0, 50.0), (1e8, 0.0, 0.0), (1e12, 1.0, 10.0))      # (fluence, Cd_ratio, fast_ratio)
EXPOSURES = (0.1, 10.0, 1e3)
# the first list is the control of the cause attribution and the first comparison base of oracle (5)
LISTS = ((0,), (0, 1, 24, 360), (360, 24, 1, 0), (1,), (1, 24), (2,), (5, 0), (0.5, 0.25),
         (0.5,), (24,), (360, 24), (3, 1, 2), (0.001,), (10, 5, 2.5), (0.0, 0.0), (1.0, 0.0), (1, 1),
         # the same Sample object activated a second time (state left over from the first calculation)
         ReRest((0, 3)), ReRest((4,)), ReRest((24, 0.75)))
EDGES = (705.0, 730.0)      # lambda*To of the shortest-lived product for the two per-configuration lists
# histories of several Sample objects (see "histories" below): two parameter sets that differ in everything
HIST_PARAMS = dict(
    A=(10.0, (1e5, 70.0, 50.0), 10.0, (0, 1, 24, 360)),        # mass, (fluence, Cd ratio, fast ratio), exposure, rest
    B=(1e-3, (1e12, 1.0, 10.0), 0.1, (24, 0.75)),              # the rest-time list of B does not contain 0
)
HIST_MULTS = (1e-3, 0.5, 2.0)       # targets as multiples of the activity at removal the object has to answer for
HIST = dict(
    quick=dict(formulas=("Co30Fe70", "NaCl"), depth=4, objects=3, flavours=("str", "obj")),
    thorough=dict(formulas=("Co30Fe70", "NaCl", "Eu", "Cu[63]0.5Cu0.5"), depth=5, objects=3, flavours=("str", "obj")),
)
HIST_SHARD_PREFIX = 2
MULTS = (1e-9, 1e-8, 1e-7, 1e-6, 1e-5, 1e-4, 1e-3, 1e-2, 0.1, 0.3, 0.5, 0.6, 0.75, 0.9, 0.99, 0.999,
         1 - 1e-6, 1 - 1e-9, 1.0, 1 + 1e-9, 1 + 1e-6, 1.01, 1.5, 2.0, 5.0, 10.0)

META = dict(
    level="model_checking", engine="E1",
    technique="bounded-exhaustive grid of activated samples x rest-time lists x targets against a recomputed decay sum",
    rule=("samples: a fixed list plus FORCED COLLISIONS derived from activation.dat by the independent reader - "
          "every pair of rows that produce one nuclide with different tabulated half-lives, as a two-component "
          "sample in both component orders (target isotopes 1:1, target isotopes balanced to equal contributions, "
          "natural elements 1:1); "
          "every (formula, mass, environment, exposure) configuration x every rest-time list (fixed lists plus "
          "two per-configuration lists at the back-extrapolation break points lambda*To = 705 and 730 of the "
          "shortest-lived product) x every target multiplier of the activity at removal is executed through "
          "Sample.calculate_activation + Sample.decay_time on a fresh Sample; a case is non-trivial when the "
          "activity at removal is above the target, so that a positive time has to be solved for; "
          "histories: every sequence of events {new Sample from the string / from one shared Formula object, copy.copy, "
          "copy.deepcopy, activate with parameter set A or B, ask} over at most three Sample objects up to the depth "
          "bound, followed by a question to one object whose answer is claimed, is executed from scratch and compared "
          "with a fresh Sample given that object's last activation; a history is non-trivial when two objects were "
          "activated and not all activations used the same parameter set; "
          "options and updates: every (formula, mass, environment) x every option (abundance argument omitted / each "
          "documented function / a caller-owned callable object, exposure omitted / given, rest times as list / tuple / "
          "numpy array / omitted) is calculated on fresh objects, then every single caller-side update of an object the "
          "Sample refers to (environment attributes, environment reused for another Sample, sample.environment replaced, "
          "rest-time object edited in place, abundance callable's state) is applied between calculate_activation and "
          "decay_time, x every target multiplier; judged against the activities at removal the Sample's own activity "
          "table reports; such a case is non-trivial when a positive time has to be solved for and a calculation with "
          "the default abundance function (option cases) or from the objects as they are after the update (update "
          "cases) has an answer that the oracle rejects for this table"),
    bound=dict(
        quick="10 samples (Co30Fe70, Au, NaCl, Eu, Co, SiO2, Hf, Lu2O3, Cu[63]0.5Cu0.5, Co[59]Co - the last two name an isotope and its natural element) x 4 masses x 3 environments x 3 exposures = 360 "
              "configurations x (20 + 2) rest-time lists (3 of them on a Sample object that was activated before) x 26 target multipliers (1e-9 .. 10 times the activity at "
              "removal, with 1-1e-9, 1, 1+1e-9); + 110 collision samples (19 row pairs, 15 nuclides) x mass 1 g x 3 "
              "environments x 3 exposures = 990 configurations x the same lists and multipliers; "
              "histories: 2 formulas (Co30Fe70, NaCl) x all 6960 (event sequence of length <= 4 after the first Sample, "
              "object asked) over <= 3 objects x 3 target multipliers (1e-3, 0.5, 2); "
              "options and updates: 12 formulas (the 10 samples + Fe, Li2MoO4) x mass 1 g x 3 environments x "
              "[4 abundance options x exposure {omitted, 10 h} x 10 rest-time arguments ((0,1,24,360) as list/tuple/"
              "numpy array/omitted, (24,0.75) and (0,) as list/tuple/numpy array) = 80 options] x [no update + every "
              "applicable one of 9 judged update kinds + 2 executed-not-judged attribute assignments] x 26 target "
              "multipliers",
        thorough="15 samples (quick + In, Ag, CdTe, B4C, Li[6]0.3Li0.7F) x 4 masses x 3 environments x 3 exposures = 432 "
                 "configurations x (20 + 2) rest-time lists (3 of them on a Sample object that was activated before) x 26 target multipliers (contains the quick grid); "
                 "+ 110 collision samples x masses {1e-3, 1} g x 3 environments x 3 exposures = 1980 configurations; "
                 "histories: 4 formulas (Co30Fe70, NaCl, Eu, Cu[63]0.5Cu0.5) x all 72630 (event sequence of length <= 5, "
                 "object asked) over <= 3 objects x 3 target multipliers; "
                 "options and updates: 17 formulas (the 15 samples + Fe, Li2MoO4) x masses {1e-3, 1, 10} g x 3 "
                 "environments x [4 abundance options x exposure {omitted, 0.1, 10, 1e3 h} x 10 rest-time arguments = "
                 "160 options] x the same updates x 26 target multipliers"),
    assumptions=[
        "the activities at removal and the half-lives are those served by calculate_activation(rest_times=[0]) "
        "and ActivationResult.Thalf_hrs of the tree under test (their correctness is property C14)",
        "RuntimeError is accepted for every input (the text permits it whenever the accuracy cannot be achieved "
        "and does not say when that is); the histogram of outcome classes shows how often it happens",
        "targets within 1e-12 relative of the activity at removal may return 0 or a positive time",
        "configurations without any activation product (activity at removal 0), or with a negative / non-finite "
        "product activity (C14), are outside the alphabet (counted in the evidence); "
        "empty rest-time lists are outside the quantifier (length >= 1)",
        "two returned times count as the same answer if they agree to 1e-6 relative or the total activities at "
        "the two times agree to 1e-10 relative (t is ill-conditioned when the target is within 1e-9 of A0)",
        "nothing is claimed for real-valued masses, fluxes, exposures, rest times or targets off the grid",
        "two rows of activation.dat that name the same nuclide with different half-lives are two products, each "
        "decaying with its own tabulated half-life (the property text: 'each decaying with its own half-life'; the "
        "library keys its results by table row)",
        "decay_time only reads the Sample: the activities and rest times a caller can read from it (and from every "
        "other Sample alive) are the same before and after",
        "each Sample object answers for its own last activation: a Sample may be duplicated with copy.copy / "
        "copy.deepcopy, several Samples may share one Formula object, mass is a public attribute a caller may assign "
        "before calculate_activation (as after construction); a deep copy of an activated Sample is an activated "
        "Sample; what a shallow copy answers BEFORE it is activated itself is outside the alphabet (it shares its "
        "tables with its source), as is asking a Sample that was never activated",
        "decay_time answers for the activation as it was calculated: the activities at removal are the ones the Sample "
        "reports in its own activity table (column of rest time 0) at the time of the question; this decides every "
        "abundance argument, and every update of the environment object (attributes changed in place, object reused for "
        "another calculation, sample.environment replaced), of the caller's rest-time list / array and of the caller's "
        "abundance callable after the calculation: none of them changes the table, so none changes the answer",
        "NOT decided by the statement and therefore executed but not judged: the caller assigns to sample.mass or "
        "sample.exposure (input attributes of the Sample itself) after the calculation without recalculating; outside "
        "the alphabet: assigning to sample.formula / sample.activity / sample.rest_times, emptying the caller's "
        "rest-time list in place (length 0 is outside the quantifier), updates of the Formula object, two updates at "
        "once, an option whose calculate_activation raises (C14)",
        "a numpy array of rest times is a rest-time list (the docstring says 'list of deactivation times', the default "
        "is a tuple, the calculation accepts any sequence)",
        "a custom abundance callable is any callable isotope -> percent; the one enumerated gives all isotopes of an "
        "element (el.isotopes) equal shares, so that its table differs from the default one for every sample",
    ],
    level_text=("bounded-exhaustive execution of the real decay_time on every grid point; each returned time is "
                "checked against the decay sum recomputed from independently obtained removal activities, and "
                "all rest-time lists of a configuration are compared with each other; no claim between grid points"),
    level_note=("trusted base: the removal activities and half-lives served by the library itself (C14), the "
                "20 lines of the oracle (fsum of A_i 2^(-t/T_i)), Python float arithmetic"),
)


# --------------------------------------------------------------------------------------- forced collisions
def _count(x):
    t = ("%.12f" % x).rstrip("0").rstrip(".")
    return "" if t == "1" else t


def collision_samples():
    """[(formula, nuclide, description)] - every pair of rows of activation.dat that produce the same nuclide
    with different tabulated half-lives, as a two-component sample in BOTH component orders:
    the two target isotopes 1:1, the two target isotopes in the ratio that makes both rows contribute the same
    activity of the shared nuclide at removal (BALANCE_ENV, exact reference solution), and the two natural
    elements 1:1 (one sample if both targets are isotopes of one element)."""
    rows, per_iso, report, col = RA.read_rows()
    by = {}
    for r in rows:
        by.setdefault(r.daughter.strip(), []).append(r)
    out, seen, pairs = [], set(), 0

    def add(formula, nuclide, what):
        if formula not in seen:
            seen.add(formula)
            out.append((formula, nuclide, what))

    with decimal.localcontext(RA.CTX):
        envr = RA.Env(*BALANCE_ENV)
        for nuclide in sorted(by):
            rs = by[nuclide]
            for i in range(len(rs)):
                for j in range(i + 1, len(rs)):
                    r1, r2 = rs[i], rs[j]
                    if r1.thalf_hrs == r2.thalf_hrs or (r1.Z, r1.A) == (r2.Z, r2.A):
                        continue
                    pairs += 1
                    what = "%s(%s) T=%s h / %s(%s) T=%s h" % (r1.isotope, r1.reaction, r1.thalf_hrs,
                                                               r2.isotope, r2.reaction, r2.thalf_hrs)
                    i1, i2 = "%s[%d]" % (r1.symbol, r1.A), "%s[%d]" % (r2.symbol, r2.A)
                    add(i1 + i2, nuclide, what)
                    add(i2 + i1, nuclide, what)
                    a1 = RA.solve(r1, envr, BALANCE_EXPOSURE).per_gram
                    a2 = RA.solve(r2, envr, BALANCE_EXPOSURE).per_gram
                    if a1 > 0 and a2 > 0:
                        n1, n2 = 1 / (a1 * r1.A), 1 / (a2 * r2.A)       # moles for equal activities
                        top = max(n1, n2)
                        c1, c2 = _count(float(n1 / top)), _count(float(n2 / top))
                        if c1 != "0" and c2 != "0":
                            add(i1 + c1 + i2 + c2, nuclide, what + " balanced")
                            add(i2 + c2 + i1 + c1, nuclide, what + " balanced")
                    if r1.Z == r2.Z:
                        add(r1.symbol, nuclide, what + " natural")
                    else:
                        add(r1.symbol + r2.symbol, nuclide, what + " natural")
                        add(r2.symbol + r1.symbol, nuclide, what + " natural")
    return out, pairs, len([n for n in by if len(set(r.thalf_hrs for r in by[n])) > 1])


# --------------------------------------------------------------------------------------- library side
def lib():
    load_pt()
    from periodictable import activation
    return activation


def activate(act, formula, mass, envt, exposure, rest):
    """An activated Sample (one execution of the real calculate_activation; two for a ReRest list)."""
    env = act.ActivationEnvironment(fluence=envt[0], Cd_ratio=envt[1], fast_ratio=envt[2])
    s = act.Sample(formula, mass)
    if getattr(rest, "reactivated", False):
        s.calculate_activation(env, exposure=3 * exposure, rest_times=[5, 2])
    s.calculate_activation(env, exposure=exposure, rest_times=list(rest))
    return s


class Products(object):
    """Removal activities and half-lives of one configuration, from the oracle's own [0] calculation."""
    def __init__(self, act, formula, mass, envt, exposure):
        ref = activate(act, formula, mass, envt, exposure, (0,))
        for a, v in ref.activity.items():
            if len(v) != 1:
                raise MachineryError("reference activation has %d entries for one rest time" % len(v))
        self._fill([(a, v[0]) for a, v in ref.activity.items()])

    @classmethod
    def from_table(cls, sample, column):
        """The activities an activated Sample reports in column `column` of its own activity table (the column of
        the rest time 0 of the rest times that were passed): the products decay_time has to refer to."""
        P = cls.__new__(cls)
        P._fill([(a, v[column]) for a, v in sample.activity.items()])
        return P

    def _fill(self, rows):
        self.items = []
        self.by_key = {}
        self.physical = True        # every product has a finite activity >= 0 and a half-life > 0
        self.has_zero = False       # some product has an activity of exactly 0.0 at removal
        halflives = {}              # nuclide name -> the half-lives of the rows that produce it
        self.names = []
        for a, v in rows:
            A, T = float(v), float(a.Thalf_hrs)
            if not (A >= 0 and math.isfinite(A) and T > 0 and math.isfinite(T)):
                self.physical = False
            if A == 0:
                self.has_zero = True
            self.items.append((A, T))
            self.by_key[a] = A
            name = str(getattr(a, "daughter", id(a))).strip()
            self.names.append(name)
            if A > 0:
                halflives.setdefault(name, set()).add(T)
        self.A0 = math.fsum(A for A, _ in self.items) if self.physical else float("nan")
        # input class (naming only): one nuclide is produced by rows that carry different half-lives
        self.collides = sorted(n for n, ts in halflives.items() if len(ts) > 1)
        self.halflives = halflives
        live = [T for A, T in self.items if A > 0]
        self.Tmin = min(live) if live else None

    def S(self, t):
        """Total activity t hours after removal (t >= 0)."""
        return math.fsum(A * 2.0 ** (-t / T) for A, T in self.items)

    def merged_explains(self, t, target):
        """Cause probe (naming only): is t accurate for a sum in which all rows that produce one nuclide decay
        with ONE of that nuclide's tabulated half-lives (products merged by nuclide name)?"""
        import itertools
        if not self.collides:
            return False
        options = [sorted(self.halflives[n]) for n in self.collides]
        n = 1
        for o in options:
            n *= len(o)
        if n > 64:
            return False
        for choice in itertools.product(*options):
            one = dict(zip(self.collides, choice))
            s = math.fsum(A * 2.0 ** (-t / one.get(name, T)) for (A, T), name in zip(self.items, self.names))
            if abs(s - target) <= ACCURACY * target + ROUND * max(s, target):
                return True
        return False


def held_by(sample):
    """What a caller can read from an activated Sample (activities per product row, rest times)."""
    try:
        acts = sorted((getattr(a, "isotope", "?"), getattr(a, "daughter", "?"), getattr(a, "reaction", "?"),
                       [float(x) for x in v]) for a, v in sample.activity.items())
        return (acts, [float(t) for t in sample.rest_times])
    except Exception as e:      # noqa
        return ("unreadable", type(e).__name__)


def call(sample, target):
    try:
        return ("time", sample.decay_time(target))
    except Exception as e:       # classified by the oracle; RuntimeError (or a subclass) is the permitted one
        return ("raise", "RuntimeError" if isinstance(e, RuntimeError) else type(e).__name__, str(e)[:160])


def show(out):
    if out is None:
        return None
    if out[0] == "time":
        return "returns %r" % (out[1],)
    return "raises %s: %s" % (out[1], out[2])


# --------------------------------------------------------------------------------------- oracle
def judge(P, target, out):
    """Oracles (1)-(4) on one call.  Returns None or (kind, expected, observed)."""
    if out[0] == "raise":
        if out[1] == "RuntimeError":
            return None
        return ("exception", "a time >= 0 or RuntimeError", show(out))
    t = out[1]
    if isinstance(t, bool) or not isinstance(t, numbers.Real) or t != t:
        return ("non-time", "a real number >= 0", show(out))
    t = float(t)
    gap = P.A0 - target
    if t < 0:
        return ("negative-time", "t >= 0", show(out))
    if t == 0:
        if gap > BAND * P.A0:
            return ("zero-above-target", "t > 0: activity at removal %r is above the target %r" % (P.A0, target),
                    show(out))
        return None
    if -gap > BAND * P.A0:
        return ("positive-below-target", "t == 0: activity at removal %r is at or below the target %r"
                % (P.A0, target), show(out))
    s = P.S(t)
    if abs(s - target) > ACCURACY * target + ROUND * max(s, target):
        return ("inaccurate", "|activity(t) - target| <= 0.1 %% of target %r" % target,
                "%s where the activity is %r (%.4g %% off)" % (show(out), s, 100 * abs(s - target) / target))
    return None


def same_answer(P, target, o1, o2):
    """Oracle (5) for two outcomes that passed (1)-(4)."""
    if o1[0] != o2[0]:
        return False
    if o1[0] == "raise":
        return True                      # both RuntimeError
    t1, t2 = float(o1[1]), float(o2[1])
    if t1 == t2 or abs(t1 - t2) <= T_REL * max(abs(t1), abs(t2)):
        return True
    return abs(P.S(t1) - P.S(t2)) <= S_REL * target


# --------------------------------------------------------------------------------------- cause probes
class Lost(object):
    """Cause probe (naming only): can the removal activities be recovered from what the Sample holds at
    its smallest rest time To?  overflow: exp(+lambda To) is not representable; near: it is within
    exp(70) of the overflow, so there is no room for any t < 0; degraded: Ia(To) exp(+lambda To) differs
    from the removal activity (underflow to 0.0 or bits lost as a denormal); zero: some Ia(To) is 0.0;
    back: the removal activity as the Sample can reconstruct it (None if it cannot)."""
    def __init__(self, sample, rest, P):
        self.overflow = self.near = self.degraded = self.zero = False
        self.back = P.A0
        self.why = None
        To = min(rest)
        if To <= 0:
            return
        try:
            idx = list(rest).index(To)
            back = []
            for a, v in sample.activity.items():
                A = P.by_key.get(a)
                if A is None or A == 0:
                    continue
                x = LN2 * To / float(a.Thalf_hrs)
                Ia = float(v[idx])
                name = getattr(a, "daughter", "?")
                if Ia == 0:
                    self.zero = True
                if x > EXP_MAX:
                    self.overflow = True
                    self.why = "exp(+lambda*To) overflows for %s" % name
                    continue
                if x > NEAR_MAX:
                    self.near = True
                    self.why = self.why or "exp(+lambda*To) = exp(%.0f) for %s leaves no room below t = 0" % (x, name)
                r = Ia * math.exp(x)
                back.append(r)
                if abs(r - A) > 1e-9 * P.A0:
                    self.degraded = True
                    if not self.overflow:
                        self.why = "activity of %s held at %r h is %r (underflow / denormal)" % (name, To, Ia)
            self.back = None if self.overflow else math.fsum(back)
        except Exception:
            self.overflow = self.near = self.degraded = self.zero = False
            self.back, self.why = P.A0, None

    @property
    def values(self):
        """the activities held at To do not determine the removal activities"""
        return self.overflow or self.degraded


def early_exit_probe(sample, P):
    """Cause probe (naming only): does the same Sample return 0 for a target in the middle of (A0/2, A0)?"""
    try:
        out = call(sample, 0.75 * P.A0)
        return out[0] == "time" and out[1] == 0
    except Exception:
        return False


_PROBE = {}


def derivative_probe(act):
    """Cause probe (naming only): a derivative carrying the factor (To - 1) vanishes identically when the
    smallest rest time is 1 h, so Newton's first step divides by zero (fixed small configuration, nothing
    lost at 1 h)."""
    if "derivative" not in _PROBE:
        try:
            cfg = ("Co", 1.0, (1e5, 0.0, 0.0), 1.0)
            P = Products(act, *cfg)
            out = call(activate(act, cfg[0], cfg[1], cfg[2], cfg[3], (1,)), 0.25 * P.A0)
            _PROBE["derivative"] = out[0] == "raise" and out[1] == "ZeroDivisionError"
        except Exception:
            _PROBE["derivative"] = False
    return _PROBE["derivative"]


def name_call(act, kind, out, rest, lost, sample, P, target):
    To = min(rest)
    if kind == "exception":
        exc = out[1]
        if exc == "OverflowError" and (lost.overflow or lost.near):
            return "rest-list-dependence:OverflowError"
        if exc == "ZeroDivisionError" and P.has_zero:
            return "initial-guess-divides-by-zero-activity-product"
        if exc == "ZeroDivisionError" and lost.zero and not (To == 1 and derivative_probe(act)):
            return "rest-list-dependence:ZeroDivisionError"
        if To != 0 and exc in ("OverflowError", "ZeroDivisionError") and derivative_probe(act):
            return "derivative-factor-To-minus-1:" + exc
        if lost.values:
            return "rest-list-dependence:" + exc
        return "exception:" + exc
    if kind == "zero-above-target":
        if lost.values and (lost.back is None or lost.back <= target * (1 + 1e-9)):
            return "rest-list-dependence:zero-returned-above-target"
        if 2 * target >= P.A0 * (1 - 1e-9) and early_exit_probe(sample, P):
            return "early-exit-double-subtracts-target"
        if P.A0 - target <= 1e-6 * P.A0:
            return "zero-returned-above-target:target-just-below-removal-activity"
        return "zero-returned-above-target"
    if kind == "inaccurate":
        if lost.values:
            return "rest-list-dependence:inaccurate-time"
        merged = out[0] == "time" and P.merged_explains(float(out[1]), target)
        return "inaccurate-time-returned" + (":nuclide-from-rows-with-different-half-lives" if merged else "")
    if kind == "negative-time":
        return "rest-list-dependence:negative-time" if lost.values else "negative-time-returned"
    if kind == "positive-below-target":
        return "positive-time-at-or-below-target"
    return "non-time-returned"


def name_pair(act, base_out, out, base_rest, rest, lost_values):
    kind = "time-differs" if out[0] == "time" and base_out[0] == "time" else "RuntimeError-vs-time"
    if lost_values:
        return "rest-list-dependence:" + kind
    if (min(rest) != 0 or min(base_rest) != 0) and derivative_probe(act):
        return "derivative-factor-To-minus-1:" + ("RuntimeError" if kind == "RuntimeError-vs-time" else kind)
    return "answer-depends-on-rest-list:" + kind


# --------------------------------------------------------------------------------------- cases
def make_case(cfg, rest, mult, base_rest=None):
    formula, mass, envt, exposure = cfg
    c = dict(formula=formula, mass=mass, fluence=envt[0], Cd_ratio=envt[1], fast_ratio=envt[2],
             exposure=exposure, rest_times=list(rest), mult=mult)
    if base_rest is not None:
        c["base_rest_times"] = list(base_rest)
    if getattr(rest, "reactivated", False):
        c["reactivated"] = True
    if getattr(base_rest, "reactivated", False):
        c["base_reactivated"] = True
    return c


def snippet(case, expected):
    L = ["import math",
         "from periodictable import activation as act",
         "env = act.ActivationEnvironment(fluence=%r, Cd_ratio=%r, fast_ratio=%r)"
         % (case["fluence"], case["Cd_ratio"], case["fast_ratio"]),
         "ref = act.Sample(%r, %r); ref.calculate_activation(env, exposure=%r, rest_times=[0])"
         % (case["formula"], case["mass"], case["exposure"]),
         "prod = [(v[0], a.Thalf_hrs) for a, v in ref.activity.items()]   # activities at removal, half-lives",
         "A0 = math.fsum(A for A, T in prod); target = A0*%r" % (case["mult"],),
         "S = lambda t: math.fsum(A*2.0**(-t/T) for A, T in prod)   # total activity t hours after removal",
         "def answer(rest_times):",
         "    s = act.Sample(%r, %r)" % (case["formula"], case["mass"]),
         ("    s.calculate_activation(env, exposure=%r, rest_times=[5, 2])   # the same Sample object was activated before"
          % (3 * case["exposure"],)) if case.get("reactivated") else "    pass",
         "    s.calculate_activation(env, exposure=%r, rest_times=rest_times)" % (case["exposure"],),
         "    try:",
         "        t = s.decay_time(target)",
         "    except RuntimeError as e:",
         "        return 'RuntimeError'",
         "    print(rest_times, 't =', t, 'activity(t)/target =', S(t)/target, 'A0/target =', A0/target)",
         "    assert t >= 0",
         "    assert (t == 0) == (A0 <= target) or abs(A0 - target) <= 1e-12*A0",
         "    assert t == 0 or abs(S(t) - target) <= 1.000001e-3*target",
         "    return t",
         "t = answer(%r)" % (case["rest_times"],)]
    if case.get("base_rest_times"):
        L += ["t0 = answer(%r)" % (case["base_rest_times"],),
              "assert t == t0 or ('RuntimeError' not in (t, t0) and (abs(t - t0) <= 1e-6*max(t, t0) "
              "or abs(S(t) - S(t0)) <= 1e-10*target)), (t, t0)"]
    L.append("# expected: %s" % expected)
    return "\n".join(L) + "\n"


def edge_lists(P):
    if P.Tmin is None:
        return []
    return [(x * P.Tmin / LN2,) for x in EDGES]


def mult_class(mult):
    if mult < 0.5:
        return "mult<0.5"
    if mult < 1 - 1e-6:
        return "0.5<=mult<1"
    if mult <= 1 + 1e-6:
        return "mult~1" if mult != 1.0 else "mult=1"
    return "mult>1"


def rest_class(rest):
    To = min(rest)
    return "To=0" if To == 0 else ("To=1" if To == 1 else "To>0")


class NothingLost(object):
    overflow = near = degraded = zero = values = False
    back = None
    why = None


def check_config(acc, act, cfg, lists, mults, edges=True, report=None, pair=None):
    """All rest-time lists x all targets of one configuration.  `report` (replay only) restricts the
    per-call reports to these lists, `pair` (replay only) the list comparison to (base list, list)."""
    formula, mass, envt, exposure = cfg
    P = Products(act, formula, mass, envt, exposure)
    acc.evaluations += 1
    if not P.physical:
        # a negative / non-finite product activity is a C14 matter (open finding there); the property
        # text speaks of activities that decay, so such a configuration is outside the alphabet
        acc.count("configurations_with_unphysical_activities_excluded")
        return None
    if not P.A0 > 0:
        acc.count("configurations_without_activation_excluded")
        return None
    if P.has_zero:
        acc.count("configurations_with_a_zero_activity_product")
    lists = list(lists)
    if edges:
        lists += [l for l in edge_lists(P) if l not in lists]
    samples, lost = [], []
    for rest in lists:
        s = activate(act, formula, mass, envt, exposure, rest)
        acc.evaluations += 1
        samples.append(s)
        lost.append(Lost(s, rest, P))
    acc.count("activated_samples", len(lists))
    acc.count("lists_with_information_lost", sum(1 for l in lost if l.values))
    control = next((i for i, rest in enumerate(lists) if min(rest) == 0), None)
    held = [held_by(s) for s in samples]        # decay_time only reads the Sample
    for mult in mults:
        target = P.A0 * mult
        nontrivial = P.A0 - target > BAND * P.A0
        outs, bads = [], []
        for rest, s in zip(lists, samples):
            out = call(s, target)
            acc.evaluations += 1
            acc.states += 1
            acc.transitions += 1
            if nontrivial:
                acc.nontrivial += 1
            bad = judge(P, target, out)
            cls = ("returns-0" if out[1] == 0 else "returns-time") if out[0] == "time" else "raises-" + out[1]
            acc.outcome("%s | %s | %s%s" % (cls, rest_class(rest), mult_class(mult), " | VIOLATES" if bad else ""))
            outs.append(out)
            bads.append(bad)
        for i, (rest, s, out, bad) in enumerate(zip(lists, samples, outs, bads)):
            if bad is None or (report is not None and rest not in report):
                continue
            kind, expected, observed = bad
            lo = lost[i]
            # counterfactual attribution: a symptom that the rest list containing 0 shows as well is not
            # caused by what was lost at a non-zero smallest rest time
            if lo.values and control is not None and control != i and bads[control] is not None \
                    and bads[control][0] == kind and (kind != "exception" or outs[control][1] == out[1]):
                lo = NothingLost
            sig = name_call(act, kind, out, rest, lo, s, P, target)
            case = make_case(cfg, rest, mult)
            acc.violation(sig, case, expected=expected, observed=observed, standalone=snippet(case, expected),
                          detail=dict(A0=P.A0, target=target, smallest_rest=min(rest), information_lost=lo.why,
                                      nuclides_with_two_half_lives=P.collides))
        # oracle (5): every list against the first list whose own outcome is acceptable
        if pair is not None:
            pairs = [(lists.index(pair[0]), lists.index(pair[1]))]
        else:
            base = next((i for i, bad in enumerate(bads) if bad is None), None)
            pairs = [(base, i) for i in range(len(lists)) if i != base] if base is not None else []
        for base, i in pairs:
            if bads[base] is not None or bads[i] is not None:
                continue
            acc.transitions += 1
            acc.count("list_pairs_compared")
            if same_answer(P, target, outs[base], outs[i]):
                continue
            sig = name_pair(act, outs[base], outs[i], lists[base], lists[i], lost[i].values or lost[base].values)
            case = make_case(cfg, lists[i], mult, base_rest=lists[base])
            expected = "the same answer as for rest times %r: %s" % (list(lists[base]), show(outs[base]))
            acc.violation(sig, case, expected=expected, observed=show(outs[i]),
                          standalone=snippet(case, expected),
                          detail=dict(A0=P.A0, target=target, information_lost=lost[i].why or lost[base].why))
    for rest, s, before in zip(lists, samples, held):
        if report is not None and rest not in report:
            continue
        acc.transitions += 1
        after = held_by(s)
        if after != before:
            case = make_case(cfg, rest, mults[-1])
            expected = "activities and rest times held by the Sample are the same before and after decay_time"
            acc.violation("decay_time-alters-the-sample", case, expected=expected,
                          observed="%r -> %r" % (before, after), standalone=snippet(case, expected))
    return P


# --------------------------------------------------------------------------------------- histories of Sample objects
# Several Sample objects live in one process: created from the formula string or from one shared Formula object,
# duplicated with copy.copy / copy.deepcopy, activated with parameter set A or B (mass, environment, exposure,
# rest times all differ), asked for decay times - in every order up to the depth bound.  Every answer must be the
# answer of a FRESH Sample that was given the object's own last activation only.
def history_params(name):
    mass, envt, exposure, rest = HIST_PARAMS[name]
    return mass, tuple(envt), exposure, tuple(rest)


class Model(object):
    """What the history says about each object: the activation it has to answer for, whether an answer is
    claimed at all, and where the object came from (for naming)."""
    def __init__(self):
        self.params, self.askable, self.parent = [], [], []
        self.held = []      # naming only: every activation the object was ever in the state of (own or inherited)

    def clone(self):
        m = Model()
        m.params, m.askable, m.parent = list(self.params), list(self.askable), list(self.parent)
        m.held = [list(h) for h in self.held]
        return m

    def apply(self, ev):
        if ev[0] == "new":
            self.params.append(None)
            self.askable.append(False)
            self.parent.append(None)
            self.held.append([])
        elif ev[0] in ("copy", "deepcopy"):
            src = ev[1]
            self.params.append(self.params[src])
            # a deep copy of an activated sample is an independent activated sample; what a SHALLOW copy that
            # was not activated itself answers is not claimed (it shares its tables with its source)
            self.askable.append(ev[0] == "deepcopy" and self.askable[src])
            self.parent.append((src, ev[0]))
            self.held.append(list(self.held[src]))
        elif ev[0] == "act":
            self.params[ev[1]] = ev[2]
            self.askable[ev[1]] = True
            self.held[ev[1]].append(ev[2])

    def events(self, max_objects, flavours):
        k = len(self.params)
        out = []
        if k < max_objects:
            out += [("new", f) for f in flavours]
            out += [(how, i) for i in range(k) for how in ("copy", "deepcopy")]
        out += [("act", i, name) for i in range(k) for name in sorted(HIST_PARAMS)]
        out += [("ask", i) for i in range(k) if self.askable[i]]
        return out

    def relation(self, i, j):
        """How object j is related to object i (naming only)."""
        def chain(x):
            path = {x: set()}
            kinds = set()
            while self.parent[x] is not None:
                kinds = kinds | {self.parent[x][1]}
                x = self.parent[x][0]
                path[x] = set(kinds)
            return path
        ci, cj = chain(i), chain(j)
        common = [x for x in ci if x in cj]
        if not common:
            return "separately-created-sample"
        x = max(common)     # the nearest common ancestor (copies have larger indices than their sources)
        return "deep-copy" if "deepcopy" in (ci[x] | cj[x]) else "shallow-copy"


def enumerate_histories(depth, max_objects, flavours, first=None):
    """Every (event sequence after the first 'new', object asked) with at most `depth` events; `first` restricts
    to sequences starting with these events (disjoint shards)."""
    out = []

    def walk(model, seq):
        for i in range(len(model.params)):
            if model.askable[i]:
                out.append((tuple(seq), i))
        if len(seq) >= depth:
            return
        for ev in model.events(max_objects, flavours):
            if first is not None and len(seq) < len(first) and ev != first[len(seq)]:
                continue
            m = model.clone()
            m.apply(ev)
            walk(m, seq + [ev])

    m0 = Model()
    m0.apply(("new", "str"))
    if first is not None and len(first) > depth:
        return out
    walk(m0, [])
    if first is not None:
        out = [h for h in out if h[0][:len(first)] == tuple(first)]
    return out


def history_prefixes(depth, max_objects, flavours, n):
    """All event sequences of length n after the first 'new' (shard keys; none if the depth is smaller)."""
    keys = []
    if n > depth:
        return keys

    def walk(model, seq):
        if len(seq) == n:
            keys.append(tuple(seq))
            return
        for ev in model.events(max_objects, flavours):
            m = model.clone()
            m.apply(ev)
            walk(m, seq + [ev])

    m0 = Model()
    m0.apply(("new", "str"))
    walk(m0, [])
    return keys


def run_history(act, formula, events, on_ask=None):
    """Execute the events on the real library.  Returns the list of Sample objects."""
    import copy
    pt = load_pt()
    objs, shared = [], [None]
    for n, ev in enumerate(events):
        if ev[0] == "new":
            if ev[1] == "obj":
                if shared[0] is None:
                    shared[0] = pt.formula(formula)
                objs.append(act.Sample(shared[0], history_params("A")[0]))
            else:
                objs.append(act.Sample(formula, history_params("A")[0]))
        elif ev[0] == "copy":
            objs.append(copy.copy(objs[ev[1]]))
        elif ev[0] == "deepcopy":
            objs.append(copy.deepcopy(objs[ev[1]]))
        elif ev[0] == "act":
            mass, envt, exposure, rest = history_params(ev[2])
            s = objs[ev[1]]
            if s.mass != mass:
                s.mass = mass       # the caller changes the public attribute before the calculation
            env = act.ActivationEnvironment(fluence=envt[0], Cd_ratio=envt[1], fast_ratio=envt[2])
            s.calculate_activation(env, exposure=exposure, rest_times=list(rest))
        elif ev[0] == "ask":
            on_ask(n, ev[1], objs)
        else:
            raise MachineryError("unknown event %r" % (ev,))
    return objs


def history_snippet(formula, events, asked, mult):
    L = ["import copy, math", "import periodictable as pt", "from periodictable import activation as act",
         "E = act.ActivationEnvironment"]
    for name in sorted(HIST_PARAMS):
        mass, envt, exposure, rest = history_params(name)
        L.append("%s = dict(mass=%r, env=dict(fluence=%r, Cd_ratio=%r, fast_ratio=%r), exposure=%r, rest_times=%r)"
                 % (name, mass, envt[0], envt[1], envt[2], exposure, list(rest)))
    L += ["def activate(s, P):",
          "    s.mass = P['mass']",
          "    s.calculate_activation(E(**P['env']), exposure=P['exposure'], rest_times=list(P['rest_times']))",
          "    return s",
          "def removal_activity(P):",
          "    ref = activate(act.Sample(%r, 1.0), dict(P, rest_times=[0]))" % formula,
          "    return math.fsum(v[0] for v in ref.activity.values())",
          "def answer(s, target):",
          "    try:",
          "        return s.decay_time(target)",
          "    except RuntimeError:",
          "        return 'RuntimeError'",
          "f = pt.formula(%r)" % formula]
    k = 0
    model = Model()
    for ev in events:
        if ev[0] == "new":
            L.append("s%d = act.Sample(%s, %r)" % (k, "f" if ev[1] == "obj" else repr(formula), history_params("A")[0]))
            k += 1
        elif ev[0] in ("copy", "deepcopy"):
            L.append("s%d = copy.%s(s%d)" % (k, ev[0], ev[1]))
            k += 1
        elif ev[0] == "act":
            L.append("activate(s%d, %s)" % (ev[1], ev[2]))
        elif ev[0] == "ask":
            L.append("for m in %r: answer(s%d, m*removal_activity(%s))" % (list(HIST_MULTS), ev[1], model.params[ev[1]]))
        model.apply(ev)
    P = model.params[asked]
    L += ["target = %r*removal_activity(%s)" % (mult, P),
          "got = answer(s%d, target)" % asked,
          "fresh = answer(activate(act.Sample(%r, 1.0), %s), target)" % (formula, P),
          "print('history:', got, ' fresh sample with the same last activation:', fresh)",
          "assert got == fresh or ('RuntimeError' not in (got, fresh) and abs(got - fresh) <= 1e-6*max(got, fresh))"]
    return "\n".join(L) + "\n"


class Fresh(object):
    """Per worker: removal activities and the answers of fresh samples, per (formula, parameter set)."""
    def __init__(self, act):
        self.act, self.P, self.out = act, {}, {}

    def products(self, formula, name):
        key = (formula, name)
        if key not in self.P:
            mass, envt, exposure, rest = history_params(name)
            P = Products(self.act, formula, mass, envt, exposure)
            self.P[key] = P if (P.physical and P.A0 > 0) else None
        return self.P[key]

    def answer(self, formula, name, target):
        key = (formula, name, target)
        if key not in self.out:
            mass, envt, exposure, rest = history_params(name)
            self.out[key] = call(activate(self.act, formula, mass, envt, exposure, rest), target)
        return self.out[key]


def held_all(objs):
    return [held_by(s) for s in objs]


def check_history(acc, act, fresh, formula, seq, asked, mults=None):
    """One history: the first 'new', the events of seq, then object `asked` is asked for every multiplier.
    Returns True if it violates."""
    events = (("new", "str"),) + tuple(tuple(ev) for ev in seq)
    model = Model()
    for ev in events:
        model.apply(ev)
    name = model.params[asked]
    P = fresh.products(formula, name)
    if P is None:
        acc.count("histories_outside_the_alphabet_no_activation")
        return False
    other = [n for n in sorted(HIST_PARAMS) if n != name][0]

    def on_ask(n, i, objs):
        # an intermediate question: every multiplier of the activity at removal the object has to answer for
        Pi = fresh.products(formula, Model_at(events, n).params[i])
        if Pi is not None:
            for m in HIST_MULTS:
                call(objs[i], Pi.A0 * m)
                acc.evaluations += 1

    acc.states += 1
    acc.evaluations += sum(1 for ev in events if ev[0] == "act")
    acts = [ev for ev in events if ev[0] == "act"]
    if len(set(ev[1] for ev in acts)) > 1 and len(set(ev[2] for ev in acts)) > 1:
        acc.nontrivial += 1         # two objects were activated, and not all with the same parameters
    try:
        objs = run_history(act, formula, events, on_ask)
    except Exception as e:      # noqa
        case = dict(kind="history", formula=formula, events=[list(ev) for ev in seq], ask=asked, mult=HIST_MULTS[0])
        acc.violation("sample-history-raises-%s" % type(e).__name__, case, expected="samples that can be activated",
                      observed="%s: %s" % (type(e).__name__, str(e)[:160]),
                      standalone=history_snippet(formula, events, asked, HIST_MULTS[0]))
        return True
    before = held_all(objs)
    for mult in (HIST_MULTS if mults is None else mults):
        target = P.A0 * mult
        want = fresh.answer(formula, name, target)
        if judge(P, target, want) is not None:
            acc.count("history_answers_not_judged_fresh_sample_violates")    # reported by the grid
            continue
        out = call(objs[asked], target)
        acc.evaluations += 1
        acc.transitions += 1
        if same_answer(P, target, want, out):
            acc.outcome("history | %s | equal-to-fresh-sample" % ("returns-time" if out[0] == "time" and out[1] != 0
                                                                   else "returns-0" if out[0] == "time" else "raises"))
            continue
        # cause (naming only): is it the answer for the OTHER parameter set, and who was activated with it last?
        # `since`: the event that put the asked object into the state it has to answer for (its last activation,
        # or the copy that created it); `later`: another object activated with the other set after that
        since = max(n for n, ev in enumerate(events)
                    if (ev[0] == "act" and ev[1] == asked) or n == creation_index(events, asked))
        later = next((ev[1] for ev in reversed(events[since + 1:])
                      if ev[0] == "act" and ev[2] == other and ev[1] != asked), None)
        who = later if later is not None else next((ev[1] for ev in reversed(events)
                                                    if ev[0] == "act" and ev[2] == other), None)
        Po = fresh.products(formula, other)
        explained = (who is not None and Po is not None and out[0] == want[0] == "time"
                     and same_answer(Po, target, fresh.answer(formula, other, target), out))
        last_other = next((ev[1] for ev in reversed(events) if ev[0] == "act" and ev[1] != asked), None)
        if explained and later is None and other in model.held[asked]:
            # the object itself was in that state before: activated with it, or copied from a sample that was
            sig = "decay_time-answers-for-an-earlier-activation-of-the-sample"
        elif explained:
            sig = "decay_time-answers-for-the-activation-of-another-sample:" + model.relation(asked, who)
        elif question_probe(act, formula, events, asked, target, P, want):
            # counterfactual probe (naming only): without the earlier questions the same history answers like the
            # fresh sample, so what an earlier decay_time call left behind is the cause
            sig = "decay_time-differs-from-fresh-sample:after-an-earlier-decay_time-question"
        elif len(model.held[asked]) > 1:
            # input class: the object (or the sample it was copied from) went through more than one activation
            sig = "decay_time-differs-from-fresh-sample:sample-activated-more-than-once"
        elif last_other is not None:
            sig = "decay_time-differs-from-fresh-sample:another-sample-was-activated:" + model.relation(asked, last_other)
        else:
            sig = "decay_time-differs-from-fresh-sample:one-sample-activated"
        case = dict(kind="history", formula=formula, events=[list(ev) for ev in seq], ask=asked, mult=mult)
        acc.outcome("history | VIOLATES")
        acc.violation(sig, case, expected="%s, as a fresh sample given the activation %s only" % (show(want), name),
                      observed=show(out), standalone=history_snippet(formula, events, asked, mult),
                      detail=dict(parameters=dict((n, list(history_params(n))) for n in sorted(HIST_PARAMS)),
                                  A0=P.A0, target=target))
        return True
    after = held_all(objs)
    for i, (b, a) in enumerate(zip(before, after)):
        if a != b:
            case = dict(kind="history", formula=formula, events=[list(ev) for ev in seq], ask=asked, mult=HIST_MULTS[-1])
            acc.violation("decay_time-alters-the-sample" if i == asked else "decay_time-alters-another-sample", case,
                          expected="activities and rest times held by every Sample are the same before and after "
                                   "decay_time", observed="sample %d: %r -> %r" % (i, b, a),
                          standalone=history_snippet(formula, events, asked, HIST_MULTS[-1]))
            return True
    return False


def question_probe(act, formula, events, asked, target, P, want):
    """Cause probe (naming only): the history without any earlier decay_time call gives the fresh sample's answer."""
    try:
        objs = run_history(act, formula, [ev for ev in events if ev[0] != "ask"])
        return same_answer(P, target, want, call(objs[asked], target))
    except Exception:       # noqa
        return False


def creation_index(events, i):
    """Index of the event that created object i."""
    k = -1
    for n, ev in enumerate(events):
        if ev[0] in ("new", "copy", "deepcopy"):
            k += 1
            if k == i:
                return n
    raise MachineryError("object %d is never created" % i)


def Model_at(events, n):
    m = Model()
    for ev in events[:n]:
        m.apply(ev)
    return m


def _hist_shard(job):
    """firsts = None: the histories shorter than the shard prefix; else: all histories that start with one of them."""
    _, tier, formula, firsts = job
    act = lib()
    acc = Acc()
    fresh = Fresh(act)
    h = HIST[tier]
    if firsts is None:
        todo = enumerate_histories(min(HIST_SHARD_PREFIX, h["depth"] + 1) - 1, h["objects"], h["flavours"])
    else:
        todo = []
        for first in firsts:
            todo += enumerate_histories(h["depth"], h["objects"], h["flavours"],
                                        first=tuple(tuple(ev) for ev in first))
    broken = set()      # nothing is explored beyond a violating state: no history that extends a violating one
    for seq, asked in todo:
        if any(seq[:n] in broken for n in range(len(seq) + 1)):
            acc.count("sample_histories_not_explored_beyond_a_violation")
            continue
        if check_history(acc, act, fresh, formula, seq, asked):
            broken.add(seq)
        acc.count("sample_histories")
    if todo and firsts is not None:
        seq, asked = todo[len(todo) // 2]
        acc.sample(dict(history_of_samples=dict(formula=formula, events=[["new", "str"]] + [list(ev) for ev in seq],
                                                asked=asked, multipliers=list(HIST_MULTS))))
    return acc


# --------------------------------------------------------------------------------------- options and updates
# Every optional argument of calculate_activation at a non-default value, and every object the Sample refers to
# updated by the caller BETWEEN the calculation and the question.  decay_time has to answer for the activation as
# it was calculated: the activities at removal are the ones the Sample itself reports in its activity table.
class Shares(object):
    """A caller-owned abundance callable that is not a function: every isotope of an element gets the same share
    (percent).  `scale` is state the caller can change after the calculation."""
    def __init__(self):
        self.scale = 1.0

    def __call__(self, iso):
        return self.scale * 100.0 / len(iso.element.isotopes)


SHARES_SOURCE = ["class Shares(object):          # a caller-owned abundance callable: equal shares for all isotopes",
                 "    scale = 1.0",
                 "    def __call__(self, iso):",
                 "        return self.scale*100.0/len(iso.element.isotopes)"]

OPT_ABUNDANCE = ("omitted", "NIST2001", "IAEA1987", "custom")       # "omitted" first: it is the control
OPT_FORMULAS = ("Fe", "Li2MoO4")    # besides SAMPLES[tier]: elements whose two documented abundance tables differ
OPT_REST = (((0, 1, 24, 360), ("list", "tuple", "ndarray", "omitted")),       # "list" first: it is the control
            ((24, 0.75), ("list", "tuple", "ndarray")),
            ((0,), ("list", "tuple", "ndarray")))
OPT = dict(
    quick=dict(masses=(1.0,), exposures=("omitted", 10.0)),
    thorough=dict(masses=(1e-3, 1.0, 10.0), exposures=("omitted", 0.1, 10.0, 1e3)),
)
UPDATE_ENV = (1e3, 4.0, 25.0)       # fluence factor, new Cd ratio, new fast ratio (all differ from every ENVS entry)
OTHER_SAMPLE = (2.0, 3.0, (0, 7))   # mass factor, exposure, rest times of another sample that uses the same environment
FORM_NAME = dict(ndarray="numpy-array", tuple="tuple", omitted="default-argument")


def _env_fluence(b, act):
    b.env.fluence = b.env.fluence * UPDATE_ENV[0]


def _env_cd(b, act):
    b.env.Cd_ratio = UPDATE_ENV[1]


def _env_fast(b, act):
    b.env.fast_ratio = UPDATE_ENV[2]


def _env_other(b, act):
    b.other = act.Sample(b.formula, OTHER_SAMPLE[0] * b.mass)
    b.other.calculate_activation(b.env, exposure=OTHER_SAMPLE[1], rest_times=list(OTHER_SAMPLE[2]))


def _env_changed_other(b, act):
    _env_fluence(b, act)
    _env_cd(b, act)
    _env_fast(b, act)
    _env_other(b, act)


def _env_replaced(b, act):
    b.sample.environment = act.ActivationEnvironment(fluence=b.env.fluence * UPDATE_ENV[0], Cd_ratio=UPDATE_ENV[1],
                                                     fast_ratio=UPDATE_ENV[2])


def _rest_values(b, act):
    b.rest[0] = b.rest[0] + 5.0
    if isinstance(b.rest, list):
        b.rest.reverse()
    else:
        b.rest[:] = b.rest[::-1].copy()


def _rest_extended(b, act):
    b.rest.append(1000.0)
    b.rest.insert(0, 0.5)


def _ab_scale(b, act):
    b.ab.scale = 3.0


def _mass(b, act):
    b.sample.mass = 7.0 * b.mass


def _exposure(b, act):
    b.sample.exposure = 77.0


# kind -> (apply, class used in signatures (None: executed and counted, NOT judged), applies to (abundance, form), source)
UPDATES = (
    ("none", None, "", lambda ab, form: True, []),
    ("env.fluence-scaled", _env_fluence, "environment-object-updated", lambda ab, form: True,
     ["env.fluence = env.fluence*%r" % UPDATE_ENV[0]]),
    ("env.Cd_ratio-changed", _env_cd, "environment-object-updated", lambda ab, form: True,
     ["env.Cd_ratio = %r" % UPDATE_ENV[1]]),
    ("env.fast_ratio-changed", _env_fast, "environment-object-updated", lambda ab, form: True,
     ["env.fast_ratio = %r" % UPDATE_ENV[2]]),
    ("env-used-by-another-sample", _env_other, "environment-object-used-by-another-sample", lambda ab, form: True,
     ["other = act.Sample(formula, %r*mass); other.calculate_activation(env, exposure=%r, rest_times=%r)"
      % (OTHER_SAMPLE[0], OTHER_SAMPLE[1], list(OTHER_SAMPLE[2]))]),
    ("env-changed-and-used-by-another-sample", _env_changed_other, "environment-object-updated", lambda ab, form: True,
     ["env.fluence = env.fluence*%r; env.Cd_ratio = %r; env.fast_ratio = %r" % UPDATE_ENV,
      "other = act.Sample(formula, %r*mass); other.calculate_activation(env, exposure=%r, rest_times=%r)"
      % (OTHER_SAMPLE[0], OTHER_SAMPLE[1], list(OTHER_SAMPLE[2]))]),
    ("sample.environment-replaced", _env_replaced, "environment-attribute-of-the-sample-replaced", lambda ab, form: True,
     ["s.environment = act.ActivationEnvironment(fluence=env.fluence*%r, Cd_ratio=%r, fast_ratio=%r)" % UPDATE_ENV]),
    ("rest-times-values-edited-in-place", _rest_values, "rest-times-object-edited-in-place",
     lambda ab, form: form in ("list", "ndarray"), ["rest[0] = rest[0] + 5.0; rest[:] = rest[::-1]"]),
    ("rest-times-extended-in-place", _rest_extended, "rest-times-object-edited-in-place",
     lambda ab, form: form == "list", ["rest.append(1000.0); rest.insert(0, 0.5)"]),
    ("abundance-callable-updated", _ab_scale, "abundance-callable-updated", lambda ab, form: ab == "custom",
     ["abundance.scale = 3.0"]),
    ("sample.mass-assigned", _mass, None, lambda ab, form: True, ["s.mass = 7.0*mass"]),
    ("sample.exposure-assigned", _exposure, None, lambda ab, form: True, ["s.exposure = 77.0"]),
)
UPDATE_BY_NAME = dict((u[0], u) for u in UPDATES)


def option_list(exposures):
    """Every (abundance, exposure, rest values, rest form); the controls (form 'list', abundance 'omitted') come
    before the options they are the control of."""
    return [(ab, exposure, values, form) for exposure in exposures for values, forms in OPT_REST for form in forms
            for ab in OPT_ABUNDANCE]


def abundance_object(act, kind):
    if kind == "omitted":
        return None
    if kind == "NIST2001":
        return act.NIST2001_isotopic_abundance
    if kind == "IAEA1987":
        return act.IAEA1987_isotopic_abundance
    if kind == "custom":
        return Shares()
    raise MachineryError("unknown abundance kind %r" % (kind,))


class Built(object):
    """Fresh objects of ONE calculation with the given options (one execution of the real calculate_activation)."""
    def __init__(self, act, cfg, opt):
        import numpy
        self.formula, self.mass, envt = cfg
        ab_kind, exposure, values, form = opt
        self.env = act.ActivationEnvironment(fluence=envt[0], Cd_ratio=envt[1], fast_ratio=envt[2])
        kw = {}
        if exposure != "omitted":
            kw["exposure"] = exposure
        self.rest = None
        if form == "list":
            self.rest = [x for x in values]
        elif form == "tuple":
            self.rest = tuple(values)
        elif form == "ndarray":
            self.rest = numpy.array(values, dtype=float)
        elif form != "omitted":
            raise MachineryError("unknown rest form %r" % (form,))
        if self.rest is not None:
            kw["rest_times"] = self.rest
        self.ab = abundance_object(act, ab_kind)
        if self.ab is not None:
            kw["abundance"] = self.ab
        self.other = None
        self.sample = act.Sample(self.formula, self.mass)
        self.sample.calculate_activation(self.env, **kw)
        # the rest times of the calculation (for the default argument: what the Sample reports right after it)
        self.values = tuple(float(x) for x in (self.sample.rest_times if form == "omitted" else values))

    def arguments(self):
        """What the caller still holds (besides the Sample): environment attributes, rest-time values, callable state."""
        return (sorted(vars(self.env).items()), None if self.rest is None else [float(x) for x in self.rest],
                sorted(vars(self.ab).items()) if isinstance(self.ab, Shares) else None)


def reported_products(act, cfg, opt, b):
    """The products decay_time has to refer to: column 'rest time 0' of the table the Sample reports; if 0 was not
    among the rest times, the table of a calculation from fresh equal objects with rest_times=[0] (as in the grid)."""
    if 0 in b.values:
        return Products.from_table(b.sample, b.values.index(0)), "table"
    ref = Built(act, cfg, (opt[0], opt[1], (0,), "list"))
    return Products.from_table(ref.sample, 0), "fresh"


def recomputed_now(act, b):
    """Naming / counting only: a calculation from the objects as they are NOW (the Sample's mass, environment and
    exposure attributes, the abundance callable in its present state), i.e. what a decay_time that recomputes instead
    of referring to the recorded activities would answer for.  Returns (sample, Products) or None."""
    try:
        s = b.sample
        n = act.Sample(b.formula, s.mass)
        kw = dict(abundance=b.ab) if b.ab is not None else {}
        n.calculate_activation(s.environment, exposure=s.exposure, rest_times=[0], **kw)
        P = Products.from_table(n, 0)
        return (n, P) if P.physical and P.A0 > 0 else None
    except Exception:       # noqa
        return None


def abundance_probe(act):
    """Cause probe (naming only; a returned 0 alone cannot tell 'the default table is below the target' from 'a 0 is
    returned wrongly'): a fixed small calculation with the equal-shares callable and the same one without the
    abundance argument, both asked for 1e-3 of the smaller removal activity - does the first give the second's
    (right, positive) answer, which is wrong for its own table?"""
    if "abundance" not in _PROBE:
        try:
            cfg = ("Fe", 1.0, (1e5, 0.0, 0.0))
            b, c = Built(act, cfg, ("custom", 1.0, (0,), "list")), Built(act, cfg, ("omitted", 1.0, (0,), "list"))
            P, Pc = Products.from_table(b.sample, 0), Products.from_table(c.sample, 0)
            target = 1e-3 * min(P.A0, Pc.A0)
            o, oc = call(b.sample, target), call(c.sample, target)
            _PROBE["abundance"] = bool(o[0] == "time" and oc[0] == "time" and oc[1] > 0 and judge(Pc, target, oc) is None
                                       and judge(P, target, o) is not None and same_answer(Pc, target, oc, o))
        except Exception:       # noqa
            _PROBE["abundance"] = False
    return _PROBE["abundance"]


def plain_name(kind, out):
    return {"exception": "exception:" + str(out[1]), "zero-above-target": "zero-returned-above-target",
            "inaccurate": "inaccurate-time-returned", "negative-time": "negative-time-returned",
            "positive-below-target": "positive-time-at-or-below-target"}.get(kind, "non-time-returned")


def option_case(cfg, opt, update, mult, other=False):
    formula, mass, envt = cfg
    c = dict(kind="option", formula=formula, mass=mass, fluence=envt[0], Cd_ratio=envt[1], fast_ratio=envt[2],
             abundance=opt[0], exposure=opt[1], rest_times=list(opt[2]), rest_form=opt[3], update=update, mult=mult)
    if other:
        c["asked"] = "other"
    return c


def option_snippet(case, expected):
    ab, form, values = case["abundance"], case["rest_form"], case["rest_times"]
    L = ["import math, numpy", "from periodictable import activation as act"]
    if ab == "custom":
        L += SHARES_SOURCE
    L += ["formula, mass = %r, %r" % (case["formula"], case["mass"]),
          "env = act.ActivationEnvironment(fluence=%r, Cd_ratio=%r, fast_ratio=%r)"
          % (case["fluence"], case["Cd_ratio"], case["fast_ratio"])]
    kw = ["env"]
    if case["exposure"] != "omitted":
        kw.append("exposure=%r" % case["exposure"])
    if form != "omitted":
        L.append("rest = " + {"list": "%r", "tuple": "tuple(%r)", "ndarray": "numpy.array(%r, dtype=float)"}[form] % (values,))
        kw.append("rest_times=rest")
    if ab != "omitted":
        L.append("abundance = " + dict(NIST2001="act.NIST2001_isotopic_abundance", IAEA1987="act.IAEA1987_isotopic_abundance",
                                       custom="Shares()")[ab])
        kw.append("abundance=abundance")
    L += ["s = act.Sample(formula, mass)", "s.calculate_activation(%s)" % ", ".join(kw)]
    if 0 in values:
        L.append("table = s")
    else:
        kw0 = [k for k in kw[1:] if not k.startswith("rest_times")]
        L += ["table = act.Sample(formula, mass)     # the same calculation from fresh equal objects, rest time 0",
              "table.calculate_activation(act.ActivationEnvironment(fluence=%r, Cd_ratio=%r, fast_ratio=%r), %s)"
              % (case["fluence"], case["Cd_ratio"], case["fast_ratio"], ", ".join(kw0 + ["rest_times=[0]"]))]
    L.append("# between the calculation and the question the caller does this:")
    L += UPDATE_BY_NAME[case["update"]][4] or ["pass"]
    if case.get("asked") == "other":
        L += ["s, table = other, other", "zero = %d" % list(OTHER_SAMPLE[2]).index(0)]
    else:
        L.append("zero = %d" % (list(values).index(0) if 0 in values else 0))
    L += ["prod = [(v[zero], a.Thalf_hrs) for a, v in table.activity.items()]   # activities at removal the sample reports",
          "A0 = math.fsum(A for A, T in prod); target = A0*%r" % (case["mult"],),
          "S = lambda t: math.fsum(A*2.0**(-t/T) for A, T in prod)   # total activity t hours after removal",
          "t = s.decay_time(target)      # RuntimeError would be permitted",
          "print('t =', t, 'activity(t)/target =', S(t)/target, 'A0/target =', A0/target)",
          "assert t >= 0",
          "assert (t == 0) == (A0 <= target) or abs(A0 - target) <= 1e-12*A0",
          "assert t == 0 or abs(S(t) - target) <= 1.000001e-3*target",
          "# expected: %s" % expected]
    return "\n".join(L) + "\n"


def ask_all(acc, b_sample, P, mults):
    """decay_time for every multiplier; returns [(mult, target, out, bad)]."""
    res = []
    for mult in mults:
        target = P.A0 * mult
        out = call(b_sample, target)
        acc.evaluations += 1
        res.append((mult, target, out, judge(P, target, out)))
    return res


def check_options(acc, act, cfg, opts, updates, mults, report=None):
    """All options x all updates x all targets of one (formula, mass, environment).  `report` (replay only)
    restricts the reports to one (option, update kind); the controls are executed all the same."""
    formula = cfg[0]
    passed = {}         # option -> the calculation without any update passed for every target (None: outside)
    controls = {}       # (exposure, values, form) -> the Built of abundance 'omitted' without update (naming / counting)
    shown = {}          # (option, multiplier) -> symptom of the violation of the calculation without any update
    for opt in opts:
        ab_kind, exposure, values, form = opt
        passed[opt] = None
        try:
            b = Built(act, cfg, opt)
            acc.evaluations += 1
        except Exception as e:      # noqa - the calculation itself is C14's matter
            acc.count("option_calculations_that_raise_excluded:%s" % type(e).__name__)
            continue
        P, source = reported_products(act, cfg, opt, b)
        if not P.physical or not P.A0 > 0:
            acc.count("option_calculations_outside_the_alphabet_excluded")
            continue
        if ab_kind == "omitted":
            controls[(exposure, values, form)] = b
        held, args = held_by(b.sample), b.arguments()
        res = ask_all(acc, b.sample, P, mults)
        lost = Lost(b.sample, b.values, P) if source == "fresh" else NothingLost
        ok = True
        control = controls.get((exposure, values, form))
        for mult, target, out, bad in res:
            acc.states += 1
            acc.transitions += 1
            cls = ("returns-0" if out[1] == 0 else "returns-time") if out[0] == "time" else "raises-" + out[1]
            acc.outcome("option | abundance %s | rest times as %s | no update | %s%s"
                        % (ab_kind, form, cls, " | VIOLATES" if bad else ""))
            # counting only: would the calculation with the DEFAULT abundance function be answered differently?
            if ab_kind != "omitted" and control is not None and passed.get(("omitted", exposure, values, form)) \
                    and P.A0 - target > BAND * P.A0:
                if judge(P, target, call(control.sample, target)) is not None:
                    acc.nontrivial += 1
                    acc.count("option_cases_where_the_default_abundance_function_has_another_answer:%s" % ab_kind)
            if bad is None:
                continue
            ok = False
            if report is not None and (opt, "none") not in report:
                continue
            kind, expected, observed = bad
            symptom = (kind, out[1] if kind == "exception" else None)
            shown[(opt, mult)] = symptom
            c_form, c_ab = (ab_kind, exposure, values, "list"), ("omitted", exposure, values, form)
            if (form != "list" and shown.get((c_form, mult)) == symptom) \
                    or (ab_kind != "omitted" and shown.get((c_ab, mult)) == symptom):
                # counterfactual control: the same calculation with the rest times passed as a list, or without the
                # abundance argument, shows the same symptom for this target - it is reported there, not twice
                acc.count("option_violations_that_a_control_option_shows_as_well")
                continue
            if form != "list" and passed.get(c_form) is not None and (c_form, mult) not in shown:
                sig = "rest-times-as-%s:%s" % (FORM_NAME[form], plain_name(kind, out))
            elif ab_kind != "omitted" and passed.get(c_ab) is not None and (c_ab, mult) not in shown and control is not None:
                # cause probe (naming only): the Sample of the same calculation WITHOUT the abundance argument is
                # asked for this very target; its answer is right for its own table and it is the answer observed
                Pc, _ = reported_products(act, cfg, c_ab, control)
                out_c = call(control.sample, target)
                explained = out[0] == "time" and out_c[0] == "time" and judge(Pc, target, out_c) is None \
                    and same_answer(Pc, target, out_c, out) and (out[1] > 0 or abundance_probe(act))
                sig = ("decay_time-answers-for-the-default-abundance-function" if explained
                       else name_call(act, kind, out, b.values, lost, b.sample, P, target))
            else:
                sig = name_call(act, kind, out, b.values, lost, b.sample, P, target)
            case = option_case(cfg, opt, "none", mult)
            acc.violation(sig, case, expected=expected, observed=observed, standalone=option_snippet(case, expected),
                          detail=dict(A0=P.A0, target=target, removal_activities_from=source))
        if ok:
            passed[opt] = True
            if held_by(b.sample) != held or b.arguments() != args:
                ok = False
                if report is None or (opt, "none") in report:
                    case = option_case(cfg, opt, "none", mults[-1])
                    expected = "the Sample's table and the caller's argument objects are the same before and after decay_time"
                    acc.violation("decay_time-alters-the-sample" if held_by(b.sample) != held
                                  else "decay_time-alters-an-argument-object", case, expected=expected,
                                  observed="%r %r -> %r %r" % (held, args, held_by(b.sample), b.arguments()),
                                  standalone=option_snippet(case, expected))
        if not ok:
            passed[opt] = False
            acc.count("options_not_explored_beyond_a_violation")
            continue
        base = dict((mult, out) for mult, target, out, bad in res)
        for uname, apply, ucls, applies, _src in updates:
            if uname == "none" or not applies(ab_kind, form):
                continue
            if report is not None and (opt, uname) not in report:
                continue
            try:
                u = Built(act, cfg, opt)
                acc.evaluations += 1
                apply(u, act)
            except Exception as e:      # noqa - neither the calculation nor the caller's update is decay_time
                acc.count("option_updates_that_raise_excluded:%s:%s" % (uname, type(e).__name__))
                continue
            # the table the Sample shows at the time of the question
            if 0 in u.values:
                Pu = Products.from_table(u.sample, u.values.index(0))
            else:
                Pu = P
            if not Pu.physical or not Pu.A0 > 0:
                acc.count("option_calculations_outside_the_alphabet_excluded")
                continue
            now = recomputed_now(act, u)
            held, args = held_by(u.sample), u.arguments()
            ures = ask_all(acc, u.sample, Pu, mults)
            violated = False
            for mult, target, out, bad in ures:
                acc.states += 1
                acc.transitions += 1
                distinct = False
                if now is not None and Pu.A0 - target > BAND * Pu.A0:
                    distinct = judge(Pu, target, call(now[0], target)) is not None
                if ucls is None:
                    # executed, NOT judged: the statement does not say what the answer is after the caller assigned
                    # to an input attribute of the Sample itself
                    acc.outcome("option | %s (not judged) | %s" % (uname, "answer-for-the-table-shown" if bad is None
                                                                   else "another-answer"))
                    continue
                if distinct:
                    acc.nontrivial += 1
                    acc.count("update_cases_where_a_recalculation_from_the_updated_objects_has_another_answer:%s" % uname)
                same = bad is None and same_answer(Pu, target, base[mult], out)
                acc.outcome("option | %s | %s" % (uname, "same-answer-as-without-the-update" if same else "VIOLATES"))
                if same or violated:
                    continue
                violated = True     # the smallest multiplier that deviates is reported, once per (option, update)
                # cause probe (naming only): it is the answer of a calculation from the objects as they are now
                explained = now is not None and out[0] == "time" and judge(now[1], target, out) is None \
                    and same_answer(now[1], target, call(now[0], target), out)
                sig = ("decay_time-answers-for-objects-updated-after-the-calculation:" if explained
                       else "decay_time-differs-from-activity-table:after-") + ucls
                if bad is not None:
                    expected, observed = bad[1], bad[2]
                else:
                    expected = "%s, as without the update" % show(base[mult])
                    observed = show(out)
                case = option_case(cfg, opt, uname, mult)
                acc.violation(sig, case, expected=expected, observed=observed, standalone=option_snippet(case, expected),
                              detail=dict(A0=Pu.A0, target=target, update=uname))
            if not violated and ucls is not None and (held_by(u.sample) != held or u.arguments() != args):
                case = option_case(cfg, opt, uname, mults[-1])
                expected = "the Sample's table and the caller's argument objects are the same before and after decay_time"
                acc.violation("decay_time-alters-the-sample" if held_by(u.sample) != held
                              else "decay_time-alters-an-argument-object", case, expected=expected,
                              observed="%r %r -> %r %r" % (held, args, held_by(u.sample), u.arguments()),
                              standalone=option_snippet(case, expected))
            # the other sample that used the same environment object answers for its own table
            if u.other is not None and not violated and ucls is not None:
                Po = Products.from_table(u.other, list(OTHER_SAMPLE[2]).index(0))
                if Po.physical and Po.A0 > 0:
                    for mult, target, out, bad in ask_all(acc, u.other, Po, mults):
                        acc.states += 1
                        acc.transitions += 1
                        acc.outcome("option | %s | other sample | %s" % (uname, "VIOLATES" if bad else "passes"))
                        if bad is None:
                            continue
                        # cause probe (naming only): the first Sample, asked for this very target, answers rightly for
                        # its own table, and that is the answer observed
                        Pf = Products.from_table(u.sample, u.values.index(0)) if 0 in u.values else P
                        out_f = call(u.sample, target)
                        explained = out[0] == "time" and out_f[0] == "time" and judge(Pf, target, out_f) is None \
                            and same_answer(Pf, target, out_f, out) and out[1] > 0
                        sig = ("decay_time-answers-for-the-activation-of-another-sample:same-environment-object"
                               if explained else name_call(act, bad[0], out, OTHER_SAMPLE[2], NothingLost, u.other, Po, target))
                        case = option_case(cfg, opt, uname, mult, other=True)
                        acc.violation(sig, case, expected=bad[1], observed=bad[2],
                                      standalone=option_snippet(case, bad[1]), detail=dict(A0=Po.A0, target=target))
                        break
    return passed


def _option_shard(job):
    _, tier, cfgs = job
    act = lib()
    acc = Acc()
    opts = option_list(OPT[tier]["exposures"])
    for n, cfg in enumerate(cfgs):
        cfg = (cfg[0], cfg[1], tuple(cfg[2]))
        check_options(acc, act, cfg, opts, UPDATES, MULTS)
        acc.count("option_configurations")
        if n == 0:
            acc.sample(dict(options_and_updates=dict(
                formula=cfg[0], mass=cfg[1], fluence=cfg[2][0], Cd_ratio=cfg[2][1], fast_ratio=cfg[2][2],
                abundance=list(OPT_ABUNDANCE), exposure=list(OPT[tier]["exposures"]),
                rest_times=[dict(values=list(v), passed_as=list(f)) for v, f in OPT_REST],
                updates=[u[0] for u in UPDATES], multipliers=list(MULTS))))
    return acc


# --------------------------------------------------------------------------------------- shards
def _shard(job):
    if job[0] == "history":
        return _hist_shard(job)
    if job[0] == "option":
        return _option_shard(job)
    tier, cfgs = job
    act = lib()
    acc = Acc()
    for n, cfg in enumerate(cfgs):
        cfg = (cfg[0], cfg[1], tuple(cfg[2]), cfg[3])
        P = check_config(acc, act, cfg, LISTS, MULTS)
        if n == 0 and P is not None:
            acc.sample(dict(formula=cfg[0], mass=cfg[1], fluence=cfg[2][0], Cd_ratio=cfg[2][1],
                            fast_ratio=cfg[2][2], exposure=cfg[3], products=len(P.items),
                            activity_at_removal=P.A0, shortest_half_life_h=P.Tmin,
                            rest_lists=[list(l) for l in LISTS] + [list(l) for l in edge_lists(P)],
                            multipliers=list(MULTS)))
        acc.info["max_products_per_sample"] = max(acc.info.get("max_products_per_sample", 0),
                                                  len(P.items) if P is not None else 0)
    return acc


def run(ctx):
    tier = ctx.tier
    jobs = []
    for formula in rotate(SAMPLES[tier], ctx.seed):
        for mass in MASSES:
            cfgs = [(formula, mass, envt, exposure) for envt in ENVS for exposure in EXPOSURES]
            jobs.append((tier, cfgs))
    collide, pairs, nuclides = collision_samples()
    n_collide = 0
    for formula, nuclide, what in rotate(collide, ctx.seed):
        for mass in COLLISION_MASSES[tier]:
            cfgs = [(formula, mass, envt, exposure) for envt in ENVS for exposure in EXPOSURES]
            n_collide += len(cfgs)
            jobs.append((tier, cfgs))
    h = HIST[tier]
    keys = history_prefixes(h["depth"], h["objects"], h["flavours"], HIST_SHARD_PREFIX)
    for formula in rotate(h["formulas"], ctx.seed):
        jobs.append(("history", tier, formula, None))
        per = 2 if ctx.quick else 1
        for i in range(0, len(keys), per):
            jobs.append(("history", tier, formula, [list(map(list, k)) for k in keys[i:i + per]]))
    opt_formulas = [f for f in SAMPLES[tier]] + [f for f in OPT_FORMULAS if f not in SAMPLES[tier]]
    for formula in rotate(opt_formulas, ctx.seed):
        for mass in OPT[tier]["masses"]:
            for envt in ENVS:
                jobs.append(("option", tier, [(formula, mass, envt)]))
    ctx.pmap(_shard, jobs)
    acc = ctx.acc
    acc.traces = acc.transitions
    acc.info["history_depth"] = h["depth"]
    acc.info["history_formulas"] = list(h["formulas"])
    acc.info["history_parameter_sets"] = dict((n, list(history_params(n))) for n in sorted(HIST_PARAMS))
    acc.info["configurations"] = len(SAMPLES[tier]) * len(MASSES) * len(ENVS) * len(EXPOSURES) + n_collide
    acc.info["collision_nuclides"] = nuclides
    acc.info["collision_row_pairs"] = pairs
    acc.info["collision_samples"] = len(collide)
    acc.info["collision_sample_formulas"] = [c[0] for c in collide]
    acc.info["fixed_rest_lists"] = len(LISTS)
    acc.info["target_multipliers"] = len(MULTS)
    acc.info["option_formulas"] = opt_formulas
    acc.info["option_updates"] = [u[0] for u in UPDATES]
    acc.info["options_per_configuration"] = len(option_list(OPT[tier]["exposures"]))
    if not acc.viol:
        for key in ("option_cases_where_the_default_abundance_function_has_another_answer:IAEA1987",
                    "option_cases_where_the_default_abundance_function_has_another_answer:custom",
                    "update_cases_where_a_recalculation_from_the_updated_objects_has_another_answer:env.fluence-scaled",
                    "update_cases_where_a_recalculation_from_the_updated_objects_has_another_answer:sample.environment-replaced"):
            if not acc.info.get(key):
                raise MachineryError("vacuous exploration: no case counted under %r" % key)
    if not acc.viol and (acc.nontrivial < 2 or not any(k.startswith("returns-time") for k in acc.outcomes)):
        raise MachineryError("vacuous exploration: no positive decay time was ever returned")


# --------------------------------------------------------------------------------------- replay
def replay(ctx, case, signature=None):
    """The recorded list (and the recorded base list) at the recorded multiplier; the list [0] is run as
    well because the attribution of a cause uses it as the control."""
    act = lib()
    if case.get("kind") == "option":
        cfg = (case["formula"], case["mass"], (case["fluence"], case["Cd_ratio"], case["fast_ratio"]))
        opt = (case["abundance"], case["exposure"], tuple(case["rest_times"]), case["rest_form"])
        opts = []       # the controls of the naming first
        for o in (("omitted", opt[1], opt[2], "list"), (opt[0], opt[1], opt[2], "list"),
                  ("omitted", opt[1], opt[2], opt[3]), opt):
            if o not in opts:
                opts.append(o)
        check_options(ctx.acc, act, cfg, opts, UPDATES, (case["mult"],), report={(opt, case["update"])})
        return
    if case.get("kind") == "history":
        check_history(ctx.acc, act, Fresh(act), case["formula"], [tuple(ev) for ev in case["events"]], case["ask"],
                      mults=(case["mult"],))
        return
    cfg = (case["formula"], case["mass"], (case["fluence"], case["Cd_ratio"], case["fast_ratio"]), case["exposure"])
    rest = (ReRest if case.get("reactivated") else tuple)(case["rest_times"])
    base = (ReRest if case.get("base_reactivated") else tuple)(case["base_rest_times"]) \
        if case.get("base_rest_times") else None
    lists = []
    for l in ((0,), base, rest):
        if l is not None and l not in lists:
            lists.append(l)
    P = check_config(ctx.acc, act, cfg, lists, (case["mult"],), edges=False, report={rest},
                     pair=(base, rest) if base is not None else (rest, rest))
    if P is None:
        raise MachineryError("replay: the configuration is outside the alphabet on this tree (no activation "
                             "products, or unphysical activities)")
