"""C04 - neutron results obey density, cell-size, grouping, unit and vector invariances.

The C03 compound set (all one-atom compounds and all unordered pairs over the class alphabet K with
counts {1, 2, 0.5}^2; fragment lists of up to 4 atoms over a sub-alphabet) is the state set; the
relations of the property are the edges, executed on the real calculator and compared between two runs:

  density x k         k in {0.5, 2, 10}: SLDs and cross sections x k, penetration depth / k
  counts x c          c in {2, 0.25, 7}: nothing changes
  permute             every permutation of the fragment list: nothing changes
  regroup             every bracketing of the fragment list into nested groups (all ordered rooted trees,
                      optionally wrapped as a whole, group multiplier 1 or 2 with leaf counts divided
                      accordingly): nothing changes
  construct           string vs dict vs nested-list construction of the same formula: nothing changes
  energy              wavelength=w vs energy=neutron_energy(w)
  vector              entry i of the vector call == scalar call at the i-th wavelength (lengths 1..5, repeated
                      and unsorted wavelengths, with and without table-driven atoms)
  objects             the caller keeps ONE Formula F (own density): F with density= / natural_density= overrides,
                      with a vector, after the caller's own F.density update, and as operand of n*F, F+G, formula(F)
                      (every intermediate observed before it is used); F alone gives the base result again and
                      no kept Formula is altered; vectors of one length share ONE buffer refilled in place
  front ends          every public route to the calculation (nsf / periodictable neutron_scattering and neutron_sld,
                      neutron_sld_from_atoms, Formula.neutron_sld; whatever of these exists) x density= / natural_density=
                      x no keyword / wavelength= / energy= (scalar) against the scalar wavelength= call of
                      nsf.neutron_scattering, which is itself compared with the reference equations
  arguments           the wavelength / energy / velocity handed to every route and to every conversion function as 13 kinds
                      of caller-owned object (float64 array of length 1 and n, view of a larger array, read-only array,
                      integer array, list / tuple of floats / of integers, 0-d array, numpy scalar, float, int): call, call
                      again, the caller refills the object in place, call, the caller writes into the result; the
                      argument reads the same after every call, every result is an object of its own and stays what it
                      was, every call is right
  default density     every kind of atom with neutron data (element, isotope, D, T, and every ion of each) as a compound of
                      that ONE kind of atom written in 11-12 ways (the atom, lists with counts 1 / 3 / 0.25, split and
                      grouped lists, a dict, strings, a kept Formula): the density omitted == the formula's own density
                      handed back as density= ; from there density x k; neutron_sld at the omitted density; the ways of
                      writing agree; the start state itself against the reference equations
  invariants          rho_im, rho_inc, Sigma_coh, Sigma_abs, Sigma_inc, t_u >= 0 in every state visited
  conversions         E lambda^2 and v lambda constant on a 40-point log grid, round trips, the documented
                      anchor 1.798 A = 2200 m/s = 25.3 meV (to the printed digits), vector == scalar

Two library runs are compared with tolerance 1e-12 relative to the condition-aware scales of
mc/ref/neutron.py (sum of magnitudes of the terms of a signed sum; sigma_i for the incoherent outputs);
the energy edge uses 1e-9 because a last-bit change of the wavelength is amplified by the slope of the
interpolated tables."""
import math, itertools
import numpy as np
from ..common import Acc, load_pt, rotate, MachineryError
from ..ref import neutron as rn
from . import c03
from .c03 import lib_atom, atom_str, atom_py, cnt_str, K, COUNTS, GLOBAL_WL

META = dict(
    level="model_checking", engine="E1",
    technique="bounded-exhaustive execution of metamorphic edges (scale, permute, regroup, re-construct, "
              "energy<->wavelength, vectorise) over a compound graph on the real calculator; state invariants; "
              "grid sweep of the unit conversions",
    rule=("a state is (compound, density, wavelength); an edge is one related second run of the real calculator; "
          "every state of the bound gets every edge of its kind; structure edges enumerate every distinct "
          "(permutation, bracketing, group multiplier, construction form) of a fragment multiset; object edges are "
          "one fixed session of calls on a Formula the caller keeps (overrides, in-place density update, use as "
          "operand) in which every call is related to the base result; front-end edges cross every public route "
          "that exists (nsf.neutron_scattering, periodictable.neutron_scattering, nsf.neutron_sld, "
          "periodictable.neutron_sld, nsf.neutron_sld_from_atoms, Formula.neutron_sld) with {density=, "
          "natural_density=} x {no wavelength keyword, wavelength=, energy=} at 3 scalars and relate each to the "
          "scalar wavelength= call of nsf.neutron_scattering (itself compared with the reference equations); "
          "argument sessions hand the wavelength / energy (every route) or wavelength / energy / velocity (the "
          "three conversion functions) over as each of 13 kinds of caller-owned object and run the fixed series "
          "call, call, caller refills the object in place, call, caller writes into the last result: after "
          "every step the argument (and the parent of a view) is bit-identical to what the caller left, no result "
          "shares memory with it, every result handed out earlier is bit-identical to its snapshot, and every call "
          "is judged entry by entry against the scalar calls; DEFAULT DENSITY: a compound of one kind of atom has a "
          "density without being given one (the atom's); for every atom kind with neutron data - element, isotope, ion, "
          "isotope ion, D, T and their ions - and every way of writing such a compound (atom object, [(1, X)], [(3, X)], "
          "[(0.25, X)], [(1, X), (2, X)], [(2, [(1, X), (0.5, X)])], {X: 2}, 'X', 'X2', '(X)2X0.5', alias spellings of D "
          "and T, a Formula the caller keeps) the state (density omitted, wavelength omitted | given) is compared with "
          "the reference equations at the density the caller reads off formula(compound).density, with the call that "
          "hands this density back as density=, with density= k x it (k in 0.5, 2, 10), with neutron_sld at the omitted "
          "density, and with the other ways of writing that have the same default density; non-trivial = the "
          "edge changes the input (k != 1, non-identity permutation, non-flat tree, other constructor, vector, other "
          "route / keyword / kind of argument object)"),
    bound=dict(
        quick="scale/energy/vector edges: all one-atom compounds and all pairs over the 32-atom class alphabet x 9 "
              "count pairs, 2 densities, 7 global wavelengths + selected table points; structure edges: all fragment "
              "multisets of size <= 3 over 9 atoms, of size 4 over 3 atoms and of size 2..3 over 4 atoms that differ "
              "only in charge or only in isotope (O, O{2-}, O[18], O[18]{2-}), all permutations x bracketings x "
              "group multipliers {1,2} x {string, nested list, dict} + the leading-count string spelling ('0.5H4 + 0.5O2', "
              "multipliers 2 and 0.5) of every shallow bracketing, each at density= and natural_density= (ions "
              "included); object sessions: all one-atom compounds and all pairs over the class alphabet (counts 1, 2) "
              "x up to 2 wavelengths; conversions on 40 log-spaced points; front ends: all one-atom compounds and "
              "all pairs over the class alphabet (counts 1, 2) x every route x 2 density keywords x (7 scalar calls + "
              "2 keywords x argument kinds x 2-3 calls), all 13 argument kinds for the one-atom compounds and the "
              "pairs over the 9-atom alphabet, {float64 array, list of integers} for the other pairs; conversion "
              "functions: 3 functions x 13 argument kinds x lengths {2, 4}; default density: all 2225 atom kinds (361 "
              "elements and isotopes with data and density x charge 0 and every charge of element.ions) x 11-12 ways "
              "of writing x {wavelength omitted, 4.75, a table midpoint} (parsed strings: wavelength omitted) x 6 calls",
        thorough="as quick with every 3rd table node/midpoint in the scale/energy edges, structure edges for all "
                 "multisets of size <= 3 over 9 atoms and of size 4 over 6 atoms; object sessions for all 9 count pairs; "
                 "front ends with all 13 argument kinds for every compound"),
    assumptions=[
        "scales for the comparison (sum of magnitudes) come from the independent reference mc/ref/neutron.py; "
        "the expected value of an edge is always the library's own second run",
        "counts and multipliers are dyadic so that c * (count / c) is exact",
        "the anchor is compared to its printed digits only: 1.798 (3 decimals), 2200 (to the unit), 25.3 (1 decimal)",
        "E = 1/2 m v^2 between the velocity and the energy conversion is not asserted separately (the statement "
        "links them through the anchor only)",
        "vectors are numpy float arrays; every 7th vector is given as a plain list (as the library's own tests do); "
        "wavelength vectors of one length and kind are ONE caller-owned object refilled in place (a wrong entry is "
        "attributed to the refill when a fresh vector of the same contents is right); energy vectors are fresh",
        "a Formula the caller keeps must have the same structure, density and name after a call as before (documented "
        "attributes only; private memo attributes are not looked at)",
        "natural_density of ions and isotope ions: the natural atom keeps the charge (as in C03)",
        "default density: WHICH density a compound of one kind of atom has by default is not in the statement and not "
        "judged (it is read off formula(compound).density, as a caller would); what is judged is that the calculation "
        "with the density omitted is the calculation at that density (docstring of formula: density 'not needed for "
        "single element formulas'; neutron_scattering asserts compound.density) and that the density edge holds from "
        "there; a way of writing whose default density is None is counted, not judged; two ways of writing are related "
        "only when they report the same default density",
        "front ends: a route that does not exist in the tree (deprecated aliases) is not judged; Formula.neutron_sld "
        "is asked on formula(compound, density= | natural_density=); neutron_sld_from_atoms gets the {atom: count} "
        "dictionary; giving BOTH energy= and wavelength= is not in the statement and not in the alphabet; "
        "energies for the energy= calls come from the reference conversion, tolerance as for the energy edge",
        "argument kinds: float32 arrays and arrays of more than one dimension are not in the alphabet (the statement "
        "speaks of scalars and vectors; single precision input would bound the precision of the output); whether "
        "neutron_wavelength_from_velocity must accept a plain list / tuple ('float or vector') is not said: a "
        "TypeError there is counted, not judged; a read-only array is a legitimate argument (it is only read)",
        "'unaltered' = dtype, shape and bytes of an array (of the parent, for a view), members and their types of a "
        "list / tuple, repr of a scalar; 'a result of its own' = numpy.shares_memory is false, and neither refilling "
        "the argument nor writing into a later result changes the bytes of a result handed out earlier",
    ],
    level_text="bounded-exhaustive over the compound graph and its edges; grid for the real parameters",
    level_note="trusted base: numpy float arithmetic and the scale computation in mc/ref/neutron.py",
)

SCALE_K = (0.5, 2.0, 10.0)
COUNT_C = (2.0, 0.25, 7.0)
SCALE_K_EXTREME = (1e-9, 1e-15, 1e4)
EDGE_DENSITIES = (1.0, 2.33)
NONNEG = ("rho_im", "rho_inc", "xs_coh", "xs_abs", "xs_inc", "penetration")
A9 = c03.K9
A3 = (("H", 0, 0), ("Gd", 157, 0), ("O", 18, -2))
A6 = (("H", 0, 0), ("H", 2, 0), ("O", 0, 0), ("V", 0, 0), ("Gd", 157, 0), ("O", 18, -2))
AC = (("O", 0, 0), ("O", 0, -2), ("O", 18, 0), ("O", 18, -2))     # atoms that differ only in charge / only in isotope
POS_COUNTS = (1, 2, 0.5, 3)


def atom_kind(key):
    """element | isotope | ion | isotope-ion"""
    sym, a, q = key
    return ("isotope" if a else "element") if q == 0 else ("isotope-ion" if a else "ion")


# ------------------------------------------------------------------ trees over a fragment sequence
def trees(seq):
    """All ordered rooted trees whose leaves are seq in order and whose internal nodes have >= 2 children.
    A tree is a leaf (count, key) or a list of trees."""
    seq = list(seq)
    if len(seq) == 1:
        return [seq[0]]
    out = []
    for parts in compositions(len(seq)):
        if len(parts) == 1:
            continue
        blocks = []
        pos = 0
        for p in parts:
            blocks.append(seq[pos:pos + p]); pos += p
        for combo in itertools.product(*[trees(b) for b in blocks]):
            out.append(list(combo))
    return out


def compositions(n):
    """All ordered ways of writing n as a sum of positive integers."""
    if n == 0:
        return [[]]
    out = []
    for first in range(1, n + 1):
        for rest in compositions(n - first):
            out.append([first] + rest)
    return out


def is_leaf(t):
    return isinstance(t, tuple)


def render_string(tree, g, top=True, depth=0):
    """formula string of a tree; every non-root group has multiplier g and the counts of what it contains
    are divided by g (exact for dyadic numbers)."""
    if is_leaf(tree):
        c, k = tree
        return atom_str(k) + cnt_str(c / (g ** depth))
    if top:
        return "".join(render_string(t, g, False, depth) for t in tree)
    inner = "".join(render_string(t, g, False, depth + 1) for t in tree)
    return "(%s)%s" % (inner, cnt_str(g))


def render_implicit(tree, g):
    """reaction-style spelling: every top-level part of the tree with a LEADING count g and the counts of what it
    contains divided by g, parts joined by ' + ': (2, H), (1, O) with g = 0.5 -> '0.5H4 + 0.5O2'; a group part
    -> '2C0.5H2 ...' (groups nested inside it keep the explicit parentheses)."""
    parts = []
    for ch in ([tree] if is_leaf(tree) else tree):
        if is_leaf(ch):
            c, k = ch
            parts.append(cnt_str(g) + atom_str(k) + cnt_str(c / g))
        else:
            parts.append(cnt_str(g) + "".join(render_string(t, g, False, 1) for t in ch))
    return " + ".join(parts)


def render_list(pt, tree, g, top=True, depth=0):
    """nested list structure [(count, atom | structure), ...] of a tree."""
    if is_leaf(tree):
        c, k = tree
        return (c / (g ** depth), lib_atom(pt, k))
    if top:
        return [render_list(pt, t, g, False, depth) for t in tree]
    return (g, [render_list(pt, t, g, False, depth + 1) for t in tree])


def render_list_src(tree, g, top=True, depth=0):
    if is_leaf(tree):
        c, k = tree
        return "(%r, %s)" % (c / (g ** depth), atom_py(k))
    if top:
        return "[%s]" % ", ".join(render_list_src(t, g, False, depth) for t in tree)
    return "(%r, [%s])" % (g, ", ".join(render_list_src(t, g, False, depth + 1) for t in tree))


def tree_json(tree):
    if is_leaf(tree):
        return [tree[0], list(tree[1])]
    return [tree_json(t) for t in tree]


def tree_from_json(j):
    if len(j) == 2 and not isinstance(j[0], list) and isinstance(j[1], list) and len(j[1]) == 3 \
            and isinstance(j[1][0], str):
        return (j[0], tuple(j[1]))
    return [tree_from_json(t) for t in j]


def tree_depth(tree):
    return 0 if is_leaf(tree) else 1 + max(tree_depth(t) for t in tree)


def leaves(tree):
    if is_leaf(tree):
        return [tree]
    out = []
    for t in tree:
        out.extend(leaves(t))
    return out


# ------------------------------------------------------------------ caller-owned argument objects
# The wavelength / energy / velocity a caller hands in is the caller's: whatever kind of object it is, it must read the
# same after the call, the result must be an object of its own (refilling the argument later, or writing into the
# result, changes nothing else), results handed out earlier stay what they were, and the same object handed in again
# - unchanged, or refilled in place - is read again.
ARG_KINDS = ("f64", "f64-1", "f64-view", "f64-readonly", "i64", "list", "list-int", "tuple", "tuple-int",
             "0d", "np.float64", "float", "int")
INT_KINDS = ("i64", "list-int", "tuple-int", "int")
SCALAR_KINDS = ("0d", "np.float64", "float", "int")
KIND_CLASS = {"f64": "array", "f64-1": "array", "f64-view": "array", "f64-readonly": "array", "i64": "array",
              "list": "list", "list-int": "list", "tuple": "tuple", "tuple-int": "tuple", "0d": "0d-array",
              "np.float64": "scalar", "float": "scalar", "int": "scalar"}
SCRIBBLE = -7250.0


def arg_values(kind, vals):
    """the values the argument of this kind holds (python numbers)"""
    n = 1 if (kind == "f64-1" or kind in SCALAR_KINDS) else len(vals)
    conv = int if kind in INT_KINDS else float
    return [conv(v) for v in vals[:n]]


def make_arg(kind, vals, name="x"):
    """-> (the argument, the object the caller owns (the parent of a view), source lines that build it as `name`)"""
    v = arg_values(kind, vals)
    if kind in ("f64", "f64-1"):
        a = np.array(v, dtype=float)
        return a, a, ["%s = np.array(%r)" % (name, v)]
    if kind == "f64-view":
        mixed = []
        for t in v:
            mixed += [t, 3.25]
        parent = np.array(mixed, dtype=float)
        return parent[::2], parent, ["parent = np.array(%r)" % (mixed,), "%s = parent[::2]" % name]
    if kind == "f64-readonly":
        a = np.array(v, dtype=float)
        a.flags.writeable = False
        return a, a, ["%s = np.array(%r)" % (name, v), "%s.flags.writeable = False" % name]
    if kind == "i64":
        a = np.array(v, dtype=np.int64)
        return a, a, ["%s = np.array(%r)" % (name, v)]
    if kind in ("list", "list-int"):
        a = list(v)
        return a, a, ["%s = %r" % (name, v)]
    if kind in ("tuple", "tuple-int"):
        a = tuple(v)
        return a, a, ["%s = %r" % (name, a)]
    if kind == "0d":
        a = np.array(v[0], dtype=float)
        return a, a, ["%s = np.array(%r)" % (name, v[0])]
    if kind == "np.float64":
        a = np.float64(v[0])
        return a, a, ["%s = np.float64(%r)" % (name, v[0])]
    if kind in ("float", "int"):
        return v[0], v[0], ["%s = %r" % (name, v[0])]
    raise MachineryError("argument kind %r" % (kind,))


def refill_arg(kind, arg, vals, name="x"):
    """the caller's own in-place update of its argument object -> source line, or None (immutable / read-only)"""
    v = arg_values(kind, vals)
    if kind in ("f64", "f64-1", "f64-view", "i64"):
        arg[...] = v
        return "%s[...] = %r" % (name, v)
    if kind == "0d":
        arg[...] = v[0]
        return "%s[...] = %r" % (name, v[0])
    if kind in ("list", "list-int"):
        arg[:] = v
        return "%s[:] = %r" % (name, v)
    return None


def obj_state(x):
    """everything a caller can read of an argument object: array dtype / shape / bytes, members and their types"""
    if isinstance(x, np.ndarray):
        return ("ndarray", x.dtype.str, x.shape, x.tobytes())
    if isinstance(x, (list, tuple)):
        return (type(x).__name__, tuple(obj_state(v) for v in x))
    return (type(x).__name__, repr(x))


def obj_show(x):
    return x.tolist() if isinstance(x, np.ndarray) else x if isinstance(x, (int, float)) else repr(x)


def leaves_state(leaves):
    return [((x.shape, x.dtype.str, x.tobytes()) if isinstance(x, np.ndarray) else repr(x)) for x in leaves]


def argument_session(acc, what, kind, v1, v2, call, callsrc, judge, case, head, tolerated=None):
    """One argument object x of `kind` in the caller's hands: call(x); call(x) again; the caller refills x in place
    with v2 (if x can be written); call(x); the caller writes into the last result.  After every step the caller's
    objects - x, and every result it was given earlier - must be what the caller left them.
    call(x) -> list of result leaves (callsrc: source of an expression that gives that list for `x`);
    judge(leaves, values, when, snippet) -> bool (reports the violation itself; snippet("print({r})") names the
    result of the last call).
    -> True (clean) | False (violation reported) | None (not judged)."""
    cls = KIND_CLASS[kind]
    x, owner, lines = make_arg(kind, v1)
    lines = list(head) + lines
    case = dict(case, argument=kind, values=arg_values(kind, v1))

    nres = [0]

    def snippet(*extra):
        return "\n".join(lines + [e.replace("{r}", "r%d" % nres[0]) for e in extra]) + "\n"

    def do():
        acc.evaluations += 1
        acc.transitions += 1
        acc.traces += 1
        nres[0] += 1
        lines.append("r%d = %s" % (nres[0], callsrc))
        try:
            with np.errstate(all="ignore"):
                return list(call(x))
        except Exception as e:
            text = "%s: %s" % (type(e).__name__, e)
            if tolerated is not None and tolerated(kind, e):
                acc.count("argument_kind_refused_not_judged:%s-%s" % (what, cls))
                return None
            if kind == "f64-readonly" and isinstance(e, ValueError) and "read-only" in str(e):
                acc.violation("argument-altered:%s-%s" % (what, cls), case,
                              "the caller's read-only array is only read", text, standalone=snippet())
            else:
                acc.violation("raises:%s-%s" % (what, cls), case, "a result", text, standalone=snippet())
            return False

    def owner_is(state, after):
        if obj_state(owner) == state:
            return True
        acc.violation("argument-altered:%s-%s" % (what, cls), dict(case, after=after),
                      "the caller's argument as the caller left it: %r" % (state[-1] if cls != "array" and cls != "0d-array"
                                                                         else np.frombuffer(state[3], dtype=state[1]).tolist(),),
                      obj_show(owner), standalone=snippet("print(%s)" % ("parent" if kind == "f64-view" else "x")))
        return False

    def held_are(held, after, why):
        for n, (leaves, state) in enumerate(held):
            if leaves_state(leaves) != state:
                acc.violation("%s:%s-%s" % (why, what, cls), dict(case, after=after, result=n + 1),
                              "result %d as it was handed out" % (n + 1), [obj_show(v) for v in leaves],
                              standalone=snippet("print(r%d)" % (n + 1)))
                return False
        return True

    def separate(leaves):
        if isinstance(owner, np.ndarray):
            for v in leaves:
                if isinstance(v, np.ndarray) and np.shares_memory(v, owner):
                    acc.violation("result-aliases-argument:%s-%s" % (what, cls), dict(case, after="call"),
                                  "a result that is an object of its own", "a result that shares memory with the argument",
                                  standalone=snippet("print([isinstance(v, np.ndarray) and np.shares_memory(v, x) "
                                                     "for v in r%d])" % nres[0]))
                    return False
        return True

    acc.states += 1
    acc.nontrivial += 1
    s0 = obj_state(owner)
    r1 = do()
    if not r1:
        return None if r1 is None else False
    if not owner_is(s0, "first call") or not separate(r1) or not judge(r1, arg_values(kind, v1), "first", snippet):
        return False
    held = [(r1, leaves_state(r1))]
    r2 = do()
    if not r2:
        return False
    if not owner_is(s0, "second call") or not held_are(held, "second call", "earlier-result-changed-by-later-call") \
            or not separate(r2) or not judge(r2, arg_values(kind, v1), "second", snippet):
        return False
    held.append((r2, leaves_state(r2)))
    last, s1 = r2, s0
    code = refill_arg(kind, x, v2)
    if code is not None:
        lines.append(code + "          # the caller's own update, in place")
        s1 = obj_state(owner)
        if not held_are(held, "caller refilled the argument", "result-aliases-argument"):
            return False
        r3 = do()
        if not r3:
            return False
        if not owner_is(s1, "third call") or not held_are(held, "third call", "earlier-result-changed-by-later-call") \
                or not separate(r3) or not judge(r3, arg_values(kind, v2), "refilled", snippet):
            return False
        last = r3
        acc.outcome("argument object (%s): call, call, refill in place, call" % cls)
    else:
        acc.outcome("argument object (%s, cannot be written): call, call" % cls)
    wrote = False
    for v in last:
        if isinstance(v, np.ndarray) and v.flags.writeable:
            v[...] = SCRIBBLE
            wrote = True
    if wrote:
        lines.append("for v in r%d:" % nres[0])
        lines.append("    if isinstance(v, np.ndarray): v[...] = %r          # the caller's own arrays now" % SCRIBBLE)
        if not owner_is(s1, "caller wrote into the result") or \
                not held_are(held[:1] if last is r2 else held, "caller wrote into a later result",
                             "earlier-result-changed-by-later-call"):
            return False
    return True



# ------------------------------------------------------------------ the edge runner
class _Broken(Exception):
    """a session on shared objects reached a violating state: nothing is explored beyond it"""


class Edges(object):
    def __init__(self, acc, tier="quick"):
        self.acc = acc
        self.tier = tier
        self.pt = load_pt()
        from periodictable import nsf
        self.nsf = nsf
        self.data = rn.NeutronData()
        self.ck = c03.Checker(Acc(), tier)        # grids only
        self.ck.data = self.data

    # ---- calling the library
    def call(self, comp, src, kw, srckw):
        """-> ('ok', flat dict of floats/arrays) | ('exc', text)"""
        self.acc.evaluations += 1
        try:
            with np.errstate(all="ignore"):
                got = self.pt.neutron_scattering(comp, **kw)
            return "ok", rn.flatten(got)
        except Exception as e:
            return "exc", "%s: %s" % (type(e).__name__, e)

    @staticmethod
    def snippet(calls):
        lines = ["import numpy as np", "import periodictable as pt", "from periodictable import nsf"]
        for src in calls:
            lines.append("print(pt.neutron_scattering(%s))" % src)
        return "\n".join(lines) + "\n"

    def cls(self, frags):
        return "table" if self.ck.table_atoms(frags) else "const"

    @staticmethod
    def scalarize(flat, i=None):
        out = {}
        for k, v in flat.items():
            try:
                x = v if i is None else v[i]
                out[k] = complex(x) if np.iscomplexobj(x) else float(x)
            except Exception:
                out[k] = None
        return out

    def invariants(self, flat, case, cls, src, standalone=None):
        """non-negativity in a visited state (scalars)."""
        self.acc.count("invariant_checks")
        for k in NONNEG:
            x = flat[k]
            if x is None or isinstance(x, complex) or not (x >= 0):
                self.acc.violation("negative:%s:%s" % (k, cls), case, "%s >= 0" % k, repr(x),
                                   standalone=standalone or self.snippet([src]))
                return False
        return True

    def relate(self, edge, ref, A, B, fa, fb, rel, rel_sigma, case, cls, srcs, standalone=None):
        self.acc.transitions += 1
        self.acc.traces += 1
        if self.acc.transitions % 150001 == 5:
            self.acc.sample(dict(case, edge_kind=edge, calls=srcs))
        bad = rn.compare(ref, (A, B), rel=rel, rel_sigma=rel_sigma, fa=fa, fb=fb)
        if bad:
            what = "all" if len(bad) == len(rn.OUTPUTS) else "+".join(bad)
            exp = dict((k, (A[k] * fa if k != "penetration" else A[k] / fa)) for k in rn.OUTPUTS
                       if A[k] is not None and not isinstance(A[k], complex))
            self.acc.violation("%s:%s" % (edge, cls), case, exp,
                               dict((k, repr(B[k])) for k in rn.OUTPUTS),
                               standalone=standalone or self.snippet(srcs),
                               detail=dict(failing=bad, failing_set=what, factor=fa))
            return False
        return True

    # ---- (A) scale, count, energy edges of one compound
    def edge_wavelengths(self, frags):
        """global grid + table points of the table-driven atoms (quick: both outside points and every
        11th node/midpoint; thorough: every 3rd)."""
        pts = list(GLOBAL_WL)
        for sym, a in self.ck.table_atoms(frags):
            g = self.ck.table_grid(sym, a)
            outside, inside = g[:2], sorted(g[2:])
            step = 3 if self.tier != "quick" else 11
            pts += [w for w, r in outside] + [w for w, r in inside[3::step]]
        return sorted(set(pts))

    def compound_args(self, frags):
        comp = [(c, lib_atom(self.pt, k)) for c, k in frags]
        src = "[%s]" % ", ".join("(%r, %s)" % (c, atom_py(k)) for c, k in frags)
        return comp, src

    def scale_edges(self, frags):
        acc = self.acc
        frags = c03.norm_frags(frags)
        cls = self.cls(frags)
        self.data.clear_cache()
        comp, src = self.compound_args(frags)
        jf = [[c, list(k)] for c, k in frags]
        wls = self.edge_wavelengths(frags)
        for d in EDGE_DENSITIES:
            for w in wls:
                acc.states += 1
                case = dict(kind="scale", frags=jf, density=d, wavelength=w)
                bsrc = "%s, density=%r, wavelength=%r" % (src, d, w)
                st, A = self.call(comp, src, dict(density=d, wavelength=w), None)
                if st == "exc":
                    acc.violation("raises:base:%s" % cls, case, "a result", A, standalone=self.snippet([bsrc]))
                    continue
                A = self.scalarize(A)
                ref = self.data.evaluate(frags, d, w)
                if not self.invariants(A, case, cls, bsrc):
                    continue
                acc.nontrivial += 1
                acc.outcome("%s: rho_re%s, sigma_i%s" % (cls, "<0" if ref["rho_re"] < 0 else ">=0",
                                                        "=0" if ref["sigma_i"] == 0 else ">0"))
                # density x k
                # extreme factors (rarefied gas .. neutron-star crust) once per compound: "all positive densities"
                ks = SCALE_K + (SCALE_K_EXTREME if (d == EDGE_DENSITIES[0] and w == wls[0]) else ())
                for k in ks:
                    c2 = dict(case, edge="density", k=k)
                    esrc = "%s, density=%r, wavelength=%r" % (src, d * k, w)
                    st, B = self.call(comp, src, dict(density=d * k, wavelength=w), None)
                    if st == "exc":
                        acc.violation("raises:density:%s" % cls, c2, "a result", B,
                                      standalone=self.snippet([esrc]))
                        continue
                    B = self.scalarize(B)
                    if self.invariants(B, c2, cls, esrc):
                        self.relate("density-scale", ref, A, B, k, k, 1e-12, 1e-12, c2, cls, [bsrc, esrc])
                # counts x c
                for c in COUNT_C:
                    c2 = dict(case, edge="counts", c=c)
                    f2 = [(c * n, k) for n, k in frags]
                    comp2, src2 = self.compound_args(f2)
                    esrc = "%s, density=%r, wavelength=%r" % (src2, d, w)
                    st, B = self.call(comp2, src2, dict(density=d, wavelength=w), None)
                    if st == "exc":
                        acc.violation("raises:counts:%s" % cls, c2, "a result", B,
                                      standalone=self.snippet([esrc]))
                        continue
                    B = self.scalarize(B)
                    if self.invariants(B, c2, cls, esrc):
                        self.relate("count-scale", ref, A, B, 1.0, 1.0, 1e-12, 1e-12, c2, cls, [bsrc, esrc])
                # wavelength <-> energy (the library's own conversion names the equivalent energy)
                c2 = dict(case, edge="energy")
                try:
                    e = float(self.nsf.neutron_energy(w))
                except Exception as ex:
                    acc.violation("raises:neutron_energy", c2, "an energy", "%s: %s" % (type(ex).__name__, ex),
                                  standalone="from periodictable import nsf\nprint(nsf.neutron_energy(%r))\n" % w)
                    continue
                esrc = "%s, density=%r, energy=nsf.neutron_energy(%r)" % (src, d, w)
                st, B = self.call(comp, src, dict(density=d, energy=e), None)
                if st == "exc":
                    acc.violation("raises:energy:%s" % cls, c2, "a result", B, standalone=self.snippet([esrc]))
                    continue
                B = self.scalarize(B)
                if self.invariants(B, c2, cls, esrc):
                    self.relate("energy-vs-wavelength", ref, A, B, 1.0, 1.0, 1e-9, 1e-11, c2, cls, [bsrc, esrc])
                # natural_density x k (ions and isotope ions included: their natural mass keeps the charge)
                if w in (1.798, 4.75):
                    st, A2 = self.call(comp, src, dict(natural_density=d, wavelength=w), None)
                    st2, B2 = self.call(comp, src, dict(natural_density=d * 2.0, wavelength=w), None)
                    c2 = dict(case, edge="natural_density", k=2.0)
                    srcs = ["%s, natural_density=%r, wavelength=%r" % (src, d, w),
                            "%s, natural_density=%r, wavelength=%r" % (src, d * 2.0, w)]
                    if st == "exc" or st2 == "exc":
                        acc.violation("raises:natural_density:%s" % cls, c2, "a result", A2 if st == "exc" else B2,
                                      standalone=self.snippet(srcs))
                    else:
                        A2, B2 = self.scalarize(A2), self.scalarize(B2)
                        dn = self.data.compound_density(frags, ("natural", d))
                        ref2 = self.data.evaluate(frags, dn, w)
                        if self.invariants(A2, c2, cls, srcs[0]) and self.invariants(B2, c2, cls, srcs[1]):
                            self.relate("density-scale", ref2, A2, B2, 2.0, 2.0, 1e-12, 1e-12, c2, cls, srcs)

    # ---- (B) vector edges of one compound
    def vector_sets(self, frags):
        w = self.edge_wavelengths(frags)
        tab = [x for x in w if x not in GLOBAL_WL]
        base4 = [0.5, 1.798, 4.75, 10.0]
        if tab:
            base4 = [tab[0], 1.798, tab[len(tab) // 2], tab[-1]]
        vecs = [[a] for a in base4]
        vecs += [[a, b] for a in base4 for b in base4]
        b3 = base4[1:]
        vecs += [[a, b, c] for a in b3 for b in b3 for c in b3]
        asc = sorted(set(w))
        vecs += [asc[:4], asc[:4][::-1], [base4[2], base4[0], base4[2], base4[3]], [base4[0]] * 4]
        five = (asc + asc)[:5] if len(asc) < 5 else [asc[0], asc[len(asc) // 4], asc[len(asc) // 2],
                                                     asc[3 * len(asc) // 4], asc[-1]]
        vecs += [five, five[::-1], [five[3], five[0], five[4], five[0], five[2]], [five[2]] * 5]
        return vecs

    def vector_edges(self, frags, d=1.0):
        acc = self.acc
        frags = c03.norm_frags(frags)
        cls = self.cls(frags)
        self.data.clear_cache()
        comp, src = self.compound_args(frags)
        jf = [[c, list(k)] for c, k in frags]
        scalars = {}
        buffers = {}
        for vi, vec in enumerate(self.vector_sets(frags)):
            for how in (("wavelength", "energy") if vi % 5 == 0 else ("wavelength",)):
                acc.states += 1
                acc.nontrivial += 1
                case = dict(kind="vector", frags=jf, density=d, vector=vec, how=how)
                prev = None
                if how == "wavelength":
                    # the caller keeps ONE buffer per length (every 7th vector: a plain list, as the library's own
                    # tests pass lists) and refills it in place for the next vector
                    bkind = "list" if vi % 7 == 3 else "array"
                    slot = (bkind, len(vec))
                    if slot in buffers:
                        arg, prev = buffers[slot]
                        arg[:] = vec
                    else:
                        arg = list(vec) if bkind == "list" else np.array(vec, dtype=float)
                    buffers[slot] = (arg, list(vec))
                    lit = (lambda v: repr(list(v))) if bkind == "list" else (lambda v: "np.array(%r)" % (list(v),))
                    vsrc = "%s, density=%r, wavelength=%s" % (src, d, lit(vec))
                    before = list(arg) if bkind == "list" else arg.tobytes()
                else:
                    arg = self.nsf.neutron_energy(np.array(vec, dtype=float))
                    vsrc = "%s, density=%r, energy=nsf.neutron_energy(np.array(%r))" % (src, d, vec)
                    ebytes = arg.tobytes()
                st, V = self.call(comp, src, {"density": d, how: arg}, None)
                if how == "energy" and arg.tobytes() != ebytes:
                    acc.violation("argument-altered:energy-array", case, "the caller's vector unchanged",
                                  repr(arg.tolist()),
                                  standalone="import numpy as np\nimport periodictable as pt\nfrom periodictable import nsf\n"
                                             "e = nsf.neutron_energy(np.array(%r))\nprint(e)\n"
                                             "pt.neutron_scattering(%s, density=%r, energy=e)\nprint(e)\n" % (vec, src, d))
                    continue
                if how == "wavelength":
                    after = list(arg) if bkind == "list" else arg.tobytes()
                    if after != before or (bkind == "list" and any(type(x) is not float for x in arg)):
                        acc.violation("argument-altered:wavelength-%s" % bkind, case, "the caller's vector unchanged: %r"
                                      % (vec,), repr(list(arg)),
                                      standalone="import numpy as np\nimport periodictable as pt\nw = %s\n"
                                                 "pt.neutron_scattering(%s, density=%r, wavelength=w)\nprint(w)\n"
                                                 % (lit(vec), src, d))
                        del buffers[slot]
                        continue
                if prev is not None and prev != list(vec):
                    if self._vector_check(frags, comp, src, d, cls, case, vec, how, st, V, vsrc, scalars, True):
                        acc.outcome("vector in a buffer refilled in place (%s)" % bkind)
                        continue
                    # wrong after the refill: is a fresh vector with the same contents right?
                    fresh = list(vec) if bkind == "list" else np.array(vec, dtype=float)
                    st0, V0 = self.call(comp, src, {"density": d, how: fresh}, None)
                    if self._vector_check(frags, comp, src, d, cls, case, vec, how, st0, V0, vsrc, scalars, True):
                        acc.transitions += 1
                        show = lambda st_, V_: (V_ if st_ == "exc" else
                                                dict((k, np.asarray(v).tolist()) for k, v in V_.items()))
                        acc.violation("vector-buffer-refilled-in-place:%s" % cls, dict(case, previous=prev),
                                      "the result of a fresh vector with the same contents: %s" % (show(st0, V0),),
                                      show(st, V),
                                      standalone="import numpy as np\nimport periodictable as pt\nw = %s\n"
                                                 "pt.neutron_scattering(%s, density=%r, wavelength=w)\nw[:] = %r\n"
                                                 "print(pt.neutron_scattering(%s, density=%r, wavelength=w))\n"
                                                 "print(pt.neutron_scattering(%s, density=%r, wavelength=%s))\n"
                                                 % (lit(prev), src, d, list(vec), src, d, src, d, lit(vec)))
                        del buffers[slot]
                        continue
                self._vector_check(frags, comp, src, d, cls, case, vec, how, st, V, vsrc, scalars, False)

    def _vector_check(self, frags, comp, src, d, cls, case, vec, how, st, V, vsrc, scalars, quiet):
        """entry i of the vector result == the scalar call at the i-th wavelength.  quiet: only the verdict."""
        acc = self.acc
        if st == "exc":
            if not quiet:
                acc.violation("raises:vector:%s" % cls, case, "vectors", V, standalone=self.snippet([vsrc]))
            return False
        shapes = dict((k, np.shape(v)) for k, v in V.items())
        if any(s != (len(vec),) for s in shapes.values()):
            if not quiet:
                acc.violation("vector-shape:%s" % cls, case, "every output of shape (%d,)" % len(vec),
                              repr(shapes), standalone=self.snippet([vsrc]))
            return False
        acc.outcome("vector length %d (%s%s)" % (len(vec), cls, ", repeated" if len(set(vec)) < len(vec) else ""))
        for i, w in enumerate(vec):
            if w not in scalars:
                ssrc = "%s, density=%r, wavelength=%r" % (src, d, w)
                st, S = self.call(comp, src, dict(density=d, wavelength=w), None)
                if st == "exc":
                    acc.violation("raises:base:%s" % cls, dict(case, index=i), "a result", S,
                                  standalone=self.snippet([ssrc]))
                    scalars[w] = None
                else:
                    scalars[w] = (self.scalarize(S), ssrc)
            if scalars[w] is None:
                continue
            S, ssrc = scalars[w]
            B = self.scalarize(V, i)
            ref = self.data.evaluate(frags, d, w)
            c2 = dict(case, index=i)
            tol = (1e-12, 1e-12) if how == "wavelength" else (1e-9, 1e-11)
            if quiet:
                if any(B[k] is None or isinstance(B[k], complex) or not (B[k] >= 0) for k in NONNEG) or \
                        rn.compare(ref, (S, B), rel=tol[0], rel_sigma=tol[1]):
                    return False
                acc.transitions += 1
                acc.traces += 1
                acc.count("invariant_checks")
                continue
            if not self.invariants(B, c2, cls, vsrc):
                return False
            if not self.relate("vector-entry", ref, S, B, 1.0, 1.0, tol[0], tol[1], c2, cls, [ssrc, vsrc]):
                return False
        return True

    # ---- (E) edges on caller-owned objects: one Formula kept by the caller, used as argument and as operand
    def object_wavelengths(self, frags):
        pts = [4.75]
        for sym, a in self.ck.table_atoms(frags)[:1]:
            g = sorted(self.ck.table_grid(sym, a)[2:])
            pts.append(g[len(g) // 2 | 1][0])
        return pts

    @staticmethod
    def _fsnap(f):
        """caller-visible state of a Formula (documented attributes)"""
        return dict(structure=f.structure, density=f.density, name=f.name)

    def object_edges(self, frags, d0=2.33):
        frags = c03.norm_frags(frags)
        self.data.clear_cache()
        for w in self.object_wavelengths(frags):
            try:
                self._object_session(frags, d0, w)
            except _Broken:
                pass

    def _object_session(self, frags, d0, w):
        """The caller builds ONE Formula F (own density d0) and keeps it: F is passed with density overrides, with a
        natural-density override, with a vector, after the caller's own update of F.density, and is used as operand
        of n*F, F+G and formula(F) - every intermediate is passed to the calculator (observed) before it is used as
        an operand.  After every call F and every other kept Formula must be as the caller left them, and F alone
        must give the base result again."""
        acc = self.acc
        pt = self.pt
        cls = self.cls(frags)
        jf = [[c, list(k)] for c, k in frags]
        case = dict(kind="object", frags=jf, density=d0, wavelength=w)
        comp, lsrc = self.compound_args(frags)
        ref = self.data.evaluate(frags, d0, w)
        lines = ["import numpy as np", "import periodictable as pt"]
        kept = {}
        acc.states += 1
        acc.nontrivial += 1

        def keep(name, obj, code):
            lines.append("%s = %s" % (name, code))
            kept[name] = (obj, self._fsnap(obj))
            return obj

        def run(edge, name, obj, kw, kwsrc, base, fa, refv=None, index=None):
            lines.append("print(pt.neutron_scattering(%s, %s))" % (name, kwsrc))
            snippet = "\n".join(lines) + "\n"
            c2 = dict(case, edge=edge)
            st, R = self.call(obj, None, kw, None)
            if st == "exc":
                acc.violation("raises:%s:%s" % (edge, cls), c2, "a result", R, standalone=snippet)
                raise _Broken()
            for nm, (o, snap) in kept.items():
                now = self._fsnap(o)
                if now != snap:
                    which = [k for k in sorted(snap) if snap[k] != now[k]][0]
                    acc.violation("argument-altered:formula.%s" % which, c2,
                                  "%s.%s as the caller left it: %r" % (nm, which, snap[which]), repr(now[which]),
                                  standalone=snippet + "print(%s.%s)\n" % (nm, which),
                                  detail=dict(after_edge=edge, cls=cls))
                    raise _Broken()
            R = self.scalarize(R, index)
            if not self.invariants(R, c2, cls, None, standalone=snippet):
                raise _Broken()
            if base is not None and not self.relate(edge, refv or ref, base, R, fa, fa, 1e-12, 1e-12, c2, cls, None,
                                                    standalone=snippet):
                raise _Broken()
            acc.outcome("edge:" + edge)
            return R

        def observe(name, obj, base, fa):
            """read everything that could be memoised on the object, before the object is used as an operand; the
            formula's own neutron_sld method must give the SLD part of the base result"""
            code = "%s.atoms, %s.mass, str(%s), %s.hill, %s.charge" % ((name,) * 5)
            if obj.density is not None:
                code += ", %s.natural_density, %s.neutron_sld(wavelength=%r)" % (name, name, w)
            lines.append("print(%s)" % code)
            snippet = "\n".join(lines) + "\n"
            c2 = dict(case, edge="formula-method")
            try:
                obj.atoms, obj.mass, str(obj), obj.hill, obj.charge
                sld = None
                if obj.density is not None:
                    obj.natural_density
                    self.acc.evaluations += 1
                    with np.errstate(all="ignore"):
                        sld = obj.neutron_sld(wavelength=w)
                    sld = [float(x) for x in sld]
            except Exception as e:
                acc.violation("raises:formula-method:%s" % cls, c2, "values", "%s: %s" % (type(e).__name__, e),
                              standalone=snippet)
                raise _Broken()
            if sld is not None and base is not None:
                R = dict((k, (base[k] * fa if k != "penetration" else base[k] / fa)) for k in rn.OUTPUTS)
                R.update(rho_re=sld[0], rho_im=sld[1], rho_inc=sld[2])
                if not self.relate("formula-method", ref, base, R, fa, fa, 1e-12, 1e-12, c2, cls, None,
                                   standalone=snippet):
                    raise _Broken()

        wsrc = "wavelength=%r" % w
        A0 = run("base", lsrc, comp, dict(density=d0, wavelength=w), "density=%r, %s" % (d0, wsrc), None, 1.0)
        F = keep("F", pt.formula(comp, density=d0), "pt.formula(%s, density=%r)" % (lsrc, d0))
        A = run("construct-formula", "F", F, dict(wavelength=w), wsrc, A0, 1.0)
        observe("F", F, A, 1.0)
        # overrides on the kept object, and the object alone again
        for k in SCALE_K:
            run("density-scale", "F", F, dict(density=d0 * k, wavelength=w), "density=%r, %s" % (d0 * k, wsrc), A, k)
            run("repeat-after-density-override", "F", F, dict(wavelength=w), wsrc, A, 1.0)
        dn = self.data.compound_density(frags, ("natural", d0))
        refn = self.data.evaluate(frags, dn, w)
        N0 = run("base", lsrc, comp, dict(natural_density=d0, wavelength=w), "natural_density=%r, %s" % (d0, wsrc),
                 None, 1.0)
        run("construct-formula", "F", F, dict(natural_density=d0, wavelength=w), "natural_density=%r, %s" % (d0, wsrc),
            N0, 1.0, refv=refn)
        run("repeat-after-natural-density-override", "F", F, dict(wavelength=w), wsrc, A, 1.0)
        w2 = 1.798 if w != 1.798 else 4.75
        run("vector-entry", "F", F, dict(wavelength=np.array([w2, w])), "wavelength=np.array(%r)" % ([w2, w],), A, 1.0,
            index=1)
        run("repeat-after-vector-call", "F", F, dict(wavelength=w), wsrc, A, 1.0)
        # the caller's own update of the density, in place
        for k in (2.0, 1.0):
            F.density = d0 * k
            lines.append("F.density = %r" % (d0 * k))
            kept["F"] = (F, self._fsnap(F))
            run("own-density-update", "F", F, dict(wavelength=w), wsrc, A, k)
            observe("F", F, A, k)
        # F as operand; every intermediate is observed before it is used
        for n in COUNT_C:
            G = keep("G", n * F, "%r*F" % n)
            run("count-scale-formula", "G", G, dict(wavelength=w), wsrc, A, 1.0)
        G = keep("G", 2.0 * F, "2.0*F")
        observe("G", G, A, 1.0)
        run("count-scale-formula", "G", G, dict(wavelength=w), wsrc, A, 1.0)
        H = keep("H", 0.25 * G, "0.25*G")
        observe("H", H, A, 1.0)
        run("count-scale-formula", "H", H, dict(wavelength=w), wsrc, A, 1.0)
        S = keep("S", G + H, "G + H")
        observe("S", S, None, 1.0)
        run("add-formula", "S", S, dict(density=d0, wavelength=w), "density=%r, %s" % (d0, wsrc), A, 1.0)
        C = keep("C", pt.formula(F), "pt.formula(F)")
        observe("C", C, A, 1.0)
        run("copy-formula", "C", C, dict(wavelength=w), wsrc, A, 1.0)
        C2 = keep("C2", pt.formula(F, density=d0 * 2.0), "pt.formula(F, density=%r)" % (d0 * 2.0))
        run("copy-formula", "C2", C2, dict(wavelength=w), wsrc, A, 2.0)
        if len(frags) > 1:
            c1, s1 = self.compound_args(frags[:1])
            c2_, s2 = self.compound_args(frags[1:])
            F1 = keep("F1", pt.formula(c1), "pt.formula(%s)" % s1)
            F2 = keep("F2", pt.formula(c2_, density=d0), "pt.formula(%s, density=%r)" % (s2, d0))
            observe("F1", F1, None, 1.0)
            observe("F2", F2, None, 1.0)
            P = keep("P", F1 + F2, "F1 + F2")
            run("add-formula", "P", P, dict(density=d0, wavelength=w), "density=%r, %s" % (d0, wsrc), A, 1.0)
        run("repeat-after-use-as-operand", "F", F, dict(wavelength=w), wsrc, A, 1.0)

    # ---- (G) front ends: every public route to the calculation x every keyword x every kind of argument object
    FLAT = "flat = lambda r: list(r[0]) + list(r[1]) + [r[2]]"

    def routes(self):
        """(name, only the three SLDs?) of every public route that exists in this tree; the first one is the base"""
        from periodictable import formulas
        out = [("nsf.neutron_scattering", False), ("pt.neutron_scattering", False),
               ("nsf.neutron_sld", True), ("pt.neutron_sld", True)]
        if hasattr(self.nsf, "neutron_sld_from_atoms"):
            out.append(("nsf.neutron_sld_from_atoms", True))
        if hasattr(self.pt, "neutron_sld_from_atoms"):
            out.append(("pt.neutron_sld_from_atoms", True))
        if hasattr(formulas.Formula, "neutron_sld"):
            out.append(("Formula.neutron_sld", True))
        if hasattr(formulas.Formula, "neutron_scattering"):
            out.append(("Formula.neutron_scattering", False))
        return out

    def route_fn(self, route, comp, atoms, src, asrc, dk, dv):
        """-> (call(kw) -> list of result leaves, source with %s for the wavelength keywords)"""
        flat = lambda r: list(r[0]) + list(r[1]) + [r[2]]
        dens = {dk: dv}
        dsrc = "%s=%r" % (dk, dv)
        mod, name = route.split(".")
        if mod == "Formula":
            full = name == "neutron_scattering"
            return ((lambda kw: (flat if full else list)(getattr(self.pt.formula(comp, **dens), name)(**kw))),
                    ("flat(pt.formula(%s, %s).%s(%%s))" if full else "list(pt.formula(%s, %s).%s(%%s))") % (src, dsrc, name))
        fn = getattr(self.nsf if mod == "nsf" else self.pt, name)
        if name == "neutron_scattering":
            return (lambda kw: flat(fn(comp, **dict(kw, **dens)))), "flat(%s(%s, %s%%s))" % (route, src, dsrc)
        if name == "neutron_sld_from_atoms":
            return (lambda kw: list(fn(atoms, **dict(kw, **dens)))), "list(%s(%s, %s%%s))" % (route, asrc, dsrc)
        return (lambda kw: list(fn(comp, **dict(kw, **dens)))), "list(%s(%s, %s%%s))" % (route, src, dsrc)

    def front_edges(self, frags, kinds=ARG_KINDS):
        acc = self.acc
        frags = c03.norm_frags(frags)
        cls = self.cls(frags)
        self.data.clear_cache()
        comp, src = self.compound_args(frags)
        atoms = dict((lib_atom(self.pt, k), c) for c, k in frags)
        if len(atoms) != len(frags):
            raise MachineryError("front ends: an atom repeats in %r" % (frags,))
        asrc = "{%s}" % ", ".join("%s: %r" % (atom_py(k), c) for c, k in frags)
        jf = [[c, list(k)] for c, k in frags]
        head = ["import numpy as np", "import periodictable as pt", "from periodictable import nsf", self.FLAT]
        pts = self.structure_wavelengths(frags)
        fv1 = ([4.75, 1.798] + pts[2:3] + [0.5])[:3]
        fv2 = [10.0, fv1[2], 1.0]
        iv1, iv2 = [2, 5, 1], [5, 1, 12]
        ie1, ie2 = [2, 25, 80], [80, 4, 25]
        lu = any(k[:2] == ("Lu", 0) for c, k in frags)
        routes = self.routes()
        for dk, dv in (("density", 2.33), ("natural_density", 1.0)):
            dref = dv if dk == "density" else self.data.compound_density(frags, ("natural", dv))
            case0 = dict(kind="front", frags=jf, dens=[dk, dv])
            bases = {}

            def base(w, how="wavelength"):
                """the base result: the scalar call of nsf.neutron_scattering with wavelength= (the documented route)"""
                key = w if how == "wavelength" else None
                if key not in bases:
                    kw = dict(wavelength=w) if how == "wavelength" else {}
                    bsrc = "%s, %s=%r%s" % (src, dk, dv, ", wavelength=%r" % w if kw else "")
                    st, A = self.call(comp, src, dict(kw, **{dk: dv}), None)
                    c1 = dict(case0, route="nsf.neutron_scattering", how=how, wavelength=w)
                    if st == "exc":
                        acc.violation("raises:base:%s" % cls, c1, "a result", A, standalone=self.snippet([bsrc]))
                        bases[key] = None
                    else:
                        A = self.scalarize(A)
                        ref = self.data.evaluate(frags, dref, w)
                        if not self.invariants(A, c1, cls, bsrc):
                            bases[key] = None
                        else:
                            bases[key] = (A, ref, bsrc)
                            if how == "wavelength":
                                # ... and the equations themselves (independent reference, as in C03)
                                bad = None
                                for variant in (("mass", "nsf") if lu else ("mass",)):
                                    r2 = self.data.evaluate(frags, dref, w, lu=variant)
                                    b2 = rn.compare(r2, A)
                                    if bad is None or len(b2) < len(bad):
                                        bad = b2
                                acc.traces += 1
                                if bad:
                                    acc.violation("front-end:base-vs-reference:%s" % dk, c1,
                                                  dict((k, ref[k]) for k in rn.OUTPUTS),
                                                  dict((k, repr(A[k])) for k in rn.OUTPUTS),
                                                  standalone=self.snippet([bsrc]), detail=dict(failing=bad, cls=cls))
                                    bases[key] = None
                return bases[key]

            def entries(leaves, i):
                out = {}
                for k, v in zip(rn.OUTPUTS, leaves):
                    try:
                        x = v if i is None else v[i]
                        out[k] = complex(x) if np.iscomplexobj(x) else float(x)
                    except Exception:
                        out[k] = None
                return out

            def wrong(leaves, i, w, tol, how="wavelength"):
                """None (agrees) | (names of the failing outputs, expected, observed) for entry i against the base at w"""
                b = base(w, how)
                if b is None:
                    return None
                A, ref, bsrc = b
                got = entries(leaves, i)
                names = list(got)
                for k in names:
                    if k in NONNEG and (got[k] is None or isinstance(got[k], complex) or not (got[k] >= 0)):
                        return [k], "%s >= 0" % k, repr(got[k])
                B = dict(A)
                B.update(got)
                acc.transitions += 1
                acc.traces += 1
                bad = rn.compare(ref, (A, B), rel=tol[0], rel_sigma=tol[1])
                if bad:
                    return bad, dict((k, A[k]) for k in names), dict((k, repr(got[k])) for k in names)
                return None

            broken = set()
            for ri, (route, sld_only) in enumerate(routes):
                call, rsrc = self.route_fn(route, comp, atoms, src, asrc, dk, dv)
                nout = 3 if sld_only else 7
                # -- scalars: no keyword, wavelength=, energy=
                plan = [("default", None, rn.ABS_WL)]
                plan += [("wavelength", w, w) for w in fv1]
                plan += [("energy", rn.energy_of_wavelength(w), w) for w in fv1]
                for how, value, w in plan:
                    if how in broken:
                        continue
                    kw = {} if how == "default" else {how: value}
                    ksrc = "" if how == "default" else ("%s=%r" % (how, value))
                    csrc = rsrc % (ksrc if route.startswith("Formula.") or not ksrc else ", " + ksrc)
                    c1 = dict(case0, route=route, how=how, value=value)
                    acc.states += 1
                    acc.nontrivial += 1
                    acc.evaluations += 1
                    try:
                        with np.errstate(all="ignore"):
                            leaves = call(kw)
                        if len(leaves) != nout:
                            raise ValueError("%d results" % len(leaves))
                    except Exception as e:
                        acc.violation("raises:front-end:%s:%s" % (route, how), c1, "%d results" % nout,
                                      "%s: %s" % (type(e).__name__, e), standalone="\n".join(head + ["print(%s)" % csrc]) + "\n")
                        broken.add(how if ri == 0 else (route, how))
                        continue
                    if (route, how) in broken:
                        continue
                    tol = (1e-9, 1e-11) if how == "energy" else (1e-12, 1e-12)
                    bad = wrong(leaves, None, w, tol, "default" if how == "default" else "wavelength")
                    if bad:
                        acc.violation("front-end:%s:%s" % (route, how), c1, bad[1], bad[2],
                                      standalone="\n".join(head + ["print(%s)" % csrc, "print(%s)" % (
                                          "flat(nsf.neutron_scattering(%s, %s=%r%s))" % (
                                              src, dk, dv, "" if how == "default" else ", wavelength=%r" % w))]) + "\n",
                                      detail=dict(failing=bad[0], cls=cls, shape="scalar"))
                        broken.add(how if ri == 0 else (route, how))
                    else:
                        acc.outcome("front end %s: %s" % (route, how))
                # -- the wavelength / energy given as every kind of caller-owned object
                for how in ("wavelength", "energy"):
                    for kind in kinds:
                        if how in broken or (route, how) in broken:
                            continue
                        if how == "wavelength":
                            v1, v2 = (iv1, iv2) if kind in INT_KINDS else (fv1, fv2)
                            wl_of = float
                        elif kind in INT_KINDS:
                            v1, v2 = ie1, ie2
                            wl_of = lambda e: rn.wavelength_of_energy(float(e))
                        else:
                            wls = dict((rn.energy_of_wavelength(w), w) for w in fv1 + fv2)
                            v1, v2 = [rn.energy_of_wavelength(w) for w in fv1], [rn.energy_of_wavelength(w) for w in fv2]
                            wl_of = wls.__getitem__
                        tol = (1e-9, 1e-11) if how == "energy" else (1e-12, 1e-12)
                        c1 = dict(case0, route=route, how=how)

                        def judge(leaves, vals, when, snippet, kind=kind, how=how, route=route, tol=tol, wl_of=wl_of,
                                  c1=c1, nout=nout):
                            tag = {"first": "front-end:%s:%s" % (route, how),
                                   "second": "second-call-same-argument:%s-%s" % (how, KIND_CLASS[kind]),
                                   "refilled": "argument-refilled-in-place:%s-%s" % (how, KIND_CLASS[kind])}[when]
                            c2 = dict(c1, argument=kind, values=vals, call=when)
                            shape = () if kind in SCALAR_KINDS else (len(vals),)
                            shapes = [np.shape(v) for v in leaves]
                            if len(leaves) != nout or any(sh != shape for sh in shapes):
                                acc.violation(tag, c2, "%d outputs of shape %r" % (nout, shape), repr(shapes),
                                              standalone=snippet("print({r})"),
                                              detail=dict(cls=cls, shape="vector", route=route))
                                return False
                            for i, t in enumerate(vals):
                                bad = wrong(leaves, None if shape == () else i, wl_of(t), tol)
                                if bad:
                                    acc.violation(tag, dict(c2, index=i), bad[1], bad[2],
                                                  standalone=snippet("print({r})", "print(flat(nsf.neutron_scattering(%s, "
                                                                     "%s=%r, wavelength=%r)))" % (src, dk, dv, wl_of(t))),
                                                  detail=dict(failing=bad[0], cls=cls, shape="vector", route=route))
                                    return False
                            return True

                        ksrc = "%s=x" % how
                        csrc = rsrc % (ksrc if route.startswith("Formula.") else ", " + ksrc)
                        ok = argument_session(acc, how, kind, v1, v2, (lambda x, how=how: call({how: x})), csrc, judge,
                                              c1, head)
                        if ok is False:
                            broken.add(how if ri == 0 else (route, how))


    # ---- (H) compounds of ONE kind of atom, starting from their DEFAULT density
    # A compound of a single kind of atom needs no density: formula() gives it the density of its atom, and
    # neutron_scattering(compound) without density= calculates at that density.  That state - density omitted, and the
    # same density read off the formula and handed back as density= - is the START of the density edge here: for every
    # kind of atom (element, isotope, ion, isotope ion; D, T and their ions) written in every way.
    def default_forms(self, key):
        """(name, compound, python source, atoms per formula unit, parsed on every call?) of every way of writing a
        compound of the one kind of atom `key`"""
        atom = lib_atom(self.pt, key)
        s, p = atom_str(key), atom_py(key)
        q = s[s.index("{"):] if "{" in s else ""
        out = [("atom", atom, p, 1, False),
               ("list", [(1, atom)], "[(1, %s)]" % p, 1, False),
               ("list-count", [(3, atom)], "[(3, %s)]" % p, 3, False),
               ("list-fraction", [(0.25, atom)], "[(0.25, %s)]" % p, 0.25, False),
               ("list-split", [(1, atom), (2, atom)], "[(1, %s), (2, %s)]" % (p, p), 3, False),
               ("list-group", [(2, [(1, atom), (0.5, atom)])], "[(2, [(1, %s), (0.5, %s)])]" % (p, p), 3, False),
               ("dict", {atom: 2}, "{%s: 2}" % p, 2, False),
               ("string", s, repr(s), 1, True),
               ("string-count", s + "2", repr(s + "2"), 2, True),
               ("string-group", "(%s)2%s0.5" % (s, s), repr("(%s)2%s0.5" % (s, s)), 2.5, True)]
        if key[:2] == ("H", 2):
            out.append(("string-alias", "H[2]" + q, repr("H[2]" + q), 1, True))
        if key[:2] == ("H", 3):
            out.append(("string-alias", "T" + q, repr("T" + q), 1, True))
        return out

    def default_edges(self, key):
        acc = self.acc
        pt = self.pt
        key = tuple(key)
        frags = [(1, key)]
        cls = "%s-%s" % (atom_kind(key), self.cls(frags))
        self.data.clear_cache()
        jk = list(key)
        lu = key[:2] == ("Lu", 0)
        wls = [None, 4.75] + self.structure_wavelengths(frags)[2:]
        head = ["import numpy as np", "import periodictable as pt", "from periodictable import nsf"]
        first = {}                  # wavelength -> (default density, result) of the first form
        forms = self.default_forms(key)
        # ... and the Formula object the caller keeps
        try:
            F = pt.formula(forms[0][1])
        except Exception as e:
            acc.violation("raises:formula:%s" % cls, dict(kind="default", key=jk, form="formula"), "a formula",
                          "%s: %s" % (type(e).__name__, e),
                          standalone="\n".join(head + ["print(pt.formula(%s))" % forms[0][2]]) + "\n")
            return
        forms.append(("formula", F, "F", 1, False))
        fsnap = self._fsnap(F)
        for fname, comp, csrc, natoms, parsed in forms:
            pre = head + (["F = pt.formula(%s)" % forms[0][2]] if fname == "formula" else [])
            case0 = dict(kind="default", key=jk, form=fname)
            try:
                d0 = F.density if fname == "formula" else pt.formula(comp).density
            except Exception as e:
                acc.violation("raises:formula:%s" % cls, case0, "a formula", "%s: %s" % (type(e).__name__, e),
                              standalone="\n".join(pre + ["print(pt.formula(%s).density)" % csrc]) + "\n")
                continue
            if d0 is None or not (d0 > 0) or not math.isfinite(d0):
                acc.count("default_density_unknown_not_judged:%s" % fname)
                continue
            d0 = float(d0)
            fr = [(natoms, key)]
            for w in (wls[:1] if parsed else wls):
                wv = rn.ABS_WL if w is None else w
                wkw = {} if w is None else dict(wavelength=w)
                wsrc = "" if w is None else ", wavelength=%r" % w
                case = dict(case0, wavelength=w)
                acc.states += 1

                def snip(*calls):
                    return "\n".join(pre + ["print(%s)" % c for c in calls]) + "\n"

                def kept_intact(c2, code):
                    if fname == "formula" and self._fsnap(F) != fsnap:
                        now = self._fsnap(F)
                        which = [k for k in sorted(fsnap) if fsnap[k] != now[k]][0]
                        acc.violation("argument-altered:formula.%s" % which, c2,
                                      "F.%s as the caller left it: %r" % (which, fsnap[which]), repr(now[which]),
                                      standalone=snip(code, "F.%s" % which), detail=dict(cls=cls))
                        return False
                    return True

                bsrc = "pt.neutron_scattering(%s%s)" % (csrc, wsrc)
                st, A = self.call(comp, None, dict(wkw), None)
                if st == "exc":
                    acc.violation("raises:default-density:%s" % cls, case, "a result", A, standalone=snip(bsrc))
                    break
                A = self.scalarize(A)
                if not kept_intact(case, bsrc) or not self.invariants(A, case, cls, None, standalone=snip(bsrc)):
                    break
                acc.nontrivial += 1
                ref = self.data.evaluate(fr, d0, wv)
                # the equations at the density the caller reads off the formula
                bad = None
                for variant in (("mass", "nsf") if lu else ("mass",)):
                    b2 = rn.compare(self.data.evaluate(fr, d0, wv, lu=variant), A)
                    if bad is None or len(b2) < len(bad):
                        bad = b2
                acc.transitions += 1
                acc.traces += 1
                if bad:
                    acc.violation("default-density:base-vs-reference:%s" % cls, case,
                                  dict((k, ref[k]) for k in rn.OUTPUTS), dict((k, repr(A[k])) for k in rn.OUTPUTS),
                                  standalone=snip(bsrc, "pt.formula(%s).density" % csrc,
                                                  "pt.neutron_scattering(%s, density=2*pt.formula(%s).density%s)"
                                                  % (csrc, csrc, wsrc)),
                                  detail=dict(failing=bad, density=d0))
                    break
                acc.outcome("default density: %s, %s" % (cls, "parsed" if parsed else "objects"))
                # the same density handed back, and scaled
                ok = True
                for k in (1.0,) + SCALE_K:
                    c2 = dict(case, edge="density", k=k)
                    esrc = "pt.neutron_scattering(%s, density=%r%s)" % (csrc, d0 * k, wsrc)
                    st, B = self.call(comp, None, dict(wkw, density=d0 * k), None)
                    if st == "exc":
                        acc.violation("raises:density:%s" % cls, c2, "a result", B, standalone=snip(esrc))
                        ok = False
                        break
                    B = self.scalarize(B)
                    if not kept_intact(c2, esrc) or not self.invariants(B, c2, cls, None, standalone=snip(bsrc, esrc)) or \
                            not self.relate("default-density-given-back" if k == 1.0 else "density-scale-from-default",
                                            ref, A, B, k, k, 1e-12, 1e-12, c2, cls, None, standalone=snip(bsrc, esrc)):
                        ok = False
                        break
                if not ok:
                    break
                # the SLD front end at the default density
                c2 = dict(case, edge="neutron_sld")
                esrc = "pt.neutron_sld(%s%s)" % (csrc, wsrc)
                acc.evaluations += 1
                try:
                    with np.errstate(all="ignore"):
                        sld = [float(x) for x in pt.neutron_sld(comp, **wkw)]
                    if len(sld) != 3:
                        raise ValueError("%d results" % len(sld))
                except Exception as e:
                    acc.violation("raises:front-end-default-density:%s" % cls, c2, "three SLDs",
                                  "%s: %s" % (type(e).__name__, e), standalone=snip(esrc))
                    break
                R = dict(A)
                R.update(rho_re=sld[0], rho_im=sld[1], rho_inc=sld[2])
                if not kept_intact(c2, esrc) or \
                        not self.relate("front-end-default-density", ref, A, R, 1.0, 1.0, 1e-12, 1e-12, c2, cls, None,
                                        standalone=snip(bsrc, esrc)):
                    break
                # another way of writing the same atoms: same default density, same result
                if w not in first:
                    first[w] = (d0, A, bsrc, pre)
                else:
                    df, A1, src1, pre1 = first[w]
                    if df == d0:
                        c2 = dict(case, edge="structure")
                        if not self.relate("structure-at-default-density", ref, A1, A, 1.0, 1.0, 1e-12, 1e-12, c2, cls, None,
                                           standalone="\n".join(pre1 + [x for x in pre if x not in pre1]
                                                                + ["print(%s)" % src1, "print(%s)" % bsrc]) + "\n"):
                            break
                    else:
                        acc.count("default_density_differs_between_forms_not_judged")

    # ---- (C) structure edges of one fragment multiset
    def structure_wavelengths(self, frags):
        pts = [1.798, 4.75]
        for sym, a in self.ck.table_atoms(frags):
            g = sorted(self.ck.table_grid(sym, a)[2:])
            pts.append(g[len(g) // 2 | 1][0])          # a midpoint in the middle of the table
        return pts

    def build_variant(self, var):
        """var = dict(tree=json, g=1|2, form='list'|'string'|'dict', wrap=bool) -> (compound, source)"""
        tree = tree_from_json(var["tree"])
        g = var["g"]
        if is_leaf(tree):
            tree = [tree]
        form = var["form"]
        if var.get("wrap"):
            # the whole formula as one explicit group with multiplier g
            if form == "string":
                inner = "".join(render_string(t, g, False, 1) for t in tree)
                return "(%s)%s" % (inner, cnt_str(g)), None
            inner = [render_list(self.pt, t, g, False, 1) for t in tree]
            src = "[(%r, [%s])]" % (g, ", ".join(render_list_src(t, g, False, 1) for t in tree))
            return [(g, inner)], src
        if form == "string":
            return render_string(tree, g), None
        if form == "string-implicit":
            return render_implicit(tree, g), None
        if form == "list":
            return render_list(self.pt, tree, g), render_list_src(tree, g)
        if form == "dict":
            d = {}
            order = []
            for c, k in leaves(tree):
                if k not in d:
                    order.append(k)
                d[k] = d.get(k, 0) + c
            comp = dict((lib_atom(self.pt, k), d[k]) for k in order)
            src = "{%s}" % ", ".join("%s: %r" % (atom_py(k), d[k]) for k in order)
            return comp, src
        raise MachineryError("form %r" % form)

    def variants(self, base):
        """every distinct (permutation, tree, group multiplier, whole-formula wrapper, construction form) of the
        fragment list `base`, as (edge kind, variant); the base state itself (identity, flat, list) is left out."""
        seen = set()
        out = []
        n = len(base)

        def add(kind, var):
            comp, src = self.build_variant(var)
            key = (var["form"], src if src is not None else comp)
            if key not in seen:
                seen.add(key)
                out.append((kind, var))

        seen_seq = set()
        for perm in itertools.permutations(range(n)):
            seq = [base[i] for i in perm]
            if repr(seq) in seen_seq:
                continue
            seen_seq.add(repr(seq))
            ident = list(perm) == list(range(n))
            for tree in trees(seq):
                flat = is_leaf(tree) or tree_depth(tree) == 1
                tj = tree_json(tree)
                for form in ("list", "string"):
                    for wrap in (False, True):
                        for g in ((1, 2) if (wrap or not flat) else (1,)):
                            if ident and flat and form == "list" and not wrap:
                                continue
                            kind = ("construct-string" if form == "string" else
                                    "regroup" if (wrap or not flat) else "permute")
                            add(kind, dict(tree=tj, g=g, form=form, wrap=wrap))
                # leading counts: '2H + 2O0.5', '0.5H4 + 0.5O2', '2CH1.5 + ...' (the grammar's implicit group is a count
                # followed by bare elements: only trees whose top-level parts are atoms or groups of atoms)
                if is_leaf(tree) or all(is_leaf(ch) or all(is_leaf(x) for x in ch) for ch in tree):
                    for g in (2, 0.5):
                        add("construct-string", dict(tree=tj, g=g, form="string-implicit", wrap=False))
                if flat:
                    add("construct-dict", dict(tree=tj, g=1, form="dict", wrap=False))
        return out

    def structure_edges(self, base):
        """base: canonical fragment list [(count, key), ...] (atoms may repeat)."""
        acc = self.acc
        base = c03.norm_frags(base)
        cls = self.cls(base)
        self.data.clear_cache()
        comp0, src0 = self.compound_args(base)
        jf = [[c, list(k)] for c, k in base]
        dens_forms = [("density", 2.33), ("natural_density", 1.0)]
        wls = self.structure_wavelengths(base)
        bases = {}
        for dk, dv in dens_forms:
            for w in wls:
                acc.states += 1
                bsrc = "%s, %s=%r, wavelength=%r" % (src0, dk, dv, w)
                st, A = self.call(comp0, src0, {dk: dv, "wavelength": w}, None)
                case = dict(kind="structure", frags=jf, dens=[dk, dv], wavelength=w)
                if st == "exc":
                    acc.violation("raises:base:%s" % cls, case, "a result", A, standalone=self.snippet([bsrc]))
                    continue
                A = self.scalarize(A)
                if not self.invariants(A, case, cls, bsrc):
                    continue
                d = dv if dk == "density" else self.data.compound_density(base, ("natural", dv))
                bases[(dk, dv, w)] = (A, self.data.evaluate(base, d, w), bsrc)
        seen_structs = 0
        from periodictable import formula as _formula
        for kind, var in self.variants(base):
            comp, src = self.build_variant(var)
            is_string = src is None
            if is_string:
                src = repr(comp)
            seen_structs += 1
            acc.outcome("edge:" + kind)
            parsed = None
            for bi, ((dk, dv, w), (A, ref, bsrc)) in enumerate(bases.items()):
                case = dict(kind="structure", frags=jf, dens=[dk, dv], wavelength=w, variant=var)
                esrc = "%s, %s=%r, wavelength=%r" % (src, dk, dv, w)
                arg = comp
                if is_string and bi > 0:
                    # the string goes through neutron_scattering itself in the first state; the other states
                    # reuse one parse of it (formula(string) is what neutron_scattering does with a string)
                    if parsed is None:
                        try:
                            parsed = _formula(comp)
                        except Exception as e:
                            acc.violation("raises:%s:%s" % (kind, cls), case, "a formula",
                                          "%s: %s" % (type(e).__name__, e),
                                          standalone="from periodictable import formula\nprint(formula(%r))\n" % comp)
                            break
                    arg = parsed
                    esrc = "pt.formula(%s), %s=%r, wavelength=%r" % (src, dk, dv, w)
                st, B = self.call(arg, src, {dk: dv, "wavelength": w}, None)
                acc.states += 1
                acc.nontrivial += 1
                if st == "exc":
                    acc.violation("raises:%s:%s" % (kind, cls), case, "a result", B, standalone=self.snippet([esrc]))
                    continue
                B = self.scalarize(B)
                if self.invariants(B, case, cls, esrc):
                    self.relate(kind, ref, A, B, 1.0, 1.0, 1e-12, 1e-12, case, cls, [bsrc, esrc])
            # the '@' tag on the string form is the same density
            if is_string and not var.get("wrap") and var["g"] == 1:
                key = ("density", 2.33, 1.798)
                if key in bases:
                    A, ref, bsrc = bases[key]
                    s2 = comp + "@2.33"
                    esrc = "%r, wavelength=1.798" % s2
                    case = dict(kind="structure", frags=jf, dens=["tag", 2.33], wavelength=1.798, variant=var)
                    st, B = self.call(s2, None, dict(wavelength=1.798), None)
                    acc.states += 1
                    if st == "exc":
                        acc.violation("raises:construct-string:%s" % cls, case, "a result", B,
                                      standalone=self.snippet([esrc]))
                    else:
                        B = self.scalarize(B)
                        if self.invariants(B, case, cls, esrc):
                            self.relate("construct-string", ref, A, B, 1.0, 1.0, 1e-12, 1e-12, case, cls,
                                        [bsrc, esrc])
        acc.count("structures", seen_structs)



# ------------------------------------------------------------------ (D) conversions
def conversions(acc):
    pt = load_pt()
    from periodictable import nsf
    grid = [0.05 * (1000.0 ** (j / 39.0)) for j in range(40)]
    h, m, ev = rn._si()
    vel = [rn.wavelength_of_velocity(w) for w in grid]       # lambda = C / v  <=>  v = C / lambda
    head = "from periodictable import nsf\nimport numpy as np\n"

    def bad(sig, case, expected, observed, code):
        acc.violation(sig, case, expected, observed, standalone=head + code)

    def ev_(fn, x, name):
        acc.evaluations += 1
        try:
            with np.errstate(all="ignore"):
                return float(fn(x))
        except Exception as e:
            bad("conv:raises:" + name, dict(kind="conv", fn=name, x=x), "a number",
                "%s: %s" % (type(e).__name__, e), "print(nsf.%s(%r))\n" % (name, x))
            return None

    E = [ev_(nsf.neutron_energy, w, "neutron_energy") for w in grid]
    L = [ev_(nsf.neutron_wavelength_from_velocity, v, "neutron_wavelength_from_velocity") for v in vel]
    if any(x is None for x in E + L):
        return
    acc.states += 2 * len(grid)
    # E lambda^2 constant, v lambda constant
    for name, prods, xs in (("E-lambda2", [e * w * w for e, w in zip(E, grid)], grid),
                            ("v-lambda", [l * v for l, v in zip(L, vel)], vel)):
        acc.transitions += len(prods); acc.traces += len(prods)
        lo, hi = min(prods), max(prods)
        if not (lo > 0 and math.isfinite(hi)) or hi - lo > 1e-14 * hi:
            i = max(range(len(prods)), key=lambda i: abs(prods[i] - prods[0]))
            bad("conv:" + name, dict(kind="conv", rule=name, x=xs[i], x0=xs[0]), "constant to 1e-14: %r" % prods[0],
                prods[i], "print(nsf.neutron_energy(%r)*%r**2, nsf.neutron_energy(%r)*%r**2)\n"
                % (xs[i], xs[i], xs[0], xs[0]) if name == "E-lambda2" else
                "print(nsf.neutron_wavelength_from_velocity(%r)*%r, nsf.neutron_wavelength_from_velocity(%r)*%r)\n"
                % (xs[i], xs[i], xs[0], xs[0]))
    # round trips
    for w, e in zip(grid, E):
        acc.transitions += 2; acc.traces += 2; acc.nontrivial += 1
        w2 = ev_(nsf.neutron_wavelength, e, "neutron_wavelength")
        if w2 is None or abs(w2 - w) > 1e-14 * w:
            bad("conv:roundtrip-wavelength", dict(kind="conv", rule="roundtrip-wavelength", x=w), w, w2,
                "print(nsf.neutron_wavelength(nsf.neutron_energy(%r)))\n" % w)
        if w2 is not None:
            e2 = ev_(nsf.neutron_energy, w2, "neutron_energy")
            e3 = ev_(nsf.neutron_energy, ev_(nsf.neutron_wavelength, e, "neutron_wavelength"), "neutron_energy")
            if e3 is None or abs(e3 - e) > 1e-14 * e:
                bad("conv:roundtrip-energy", dict(kind="conv", rule="roundtrip-energy", x=e), e, e3,
                    "print(nsf.neutron_energy(nsf.neutron_wavelength(%r)))\n" % e)
    # anchor 1.798 A = 2200 m/s = 25.3 meV, to the printed digits
    acc.states += 4
    a1 = ev_(nsf.neutron_wavelength_from_velocity, 2200.0, "neutron_wavelength_from_velocity")
    a2 = ev_(nsf.neutron_energy, 1.798, "neutron_energy")
    a3 = ev_(nsf.neutron_wavelength, 25.3, "neutron_wavelength")
    a4 = ev_(nsf.neutron_wavelength_from_velocity, 1.798, "neutron_wavelength_from_velocity")   # v = C / lambda
    checks = (("anchor-2200-to-wavelength", a1, 1.798, 0.0005, "print(nsf.neutron_wavelength_from_velocity(2200))\n"),
              ("anchor-1.798-to-energy", a2, 25.3, 0.05, "print(nsf.neutron_energy(1.798))\n"),
              ("anchor-25.3-to-wavelength", a3, 1.798, 0.0005, "print(nsf.neutron_wavelength(25.3))\n"),
              ("anchor-1.798-to-velocity", a4, 2200.0, 0.5,
               "print(nsf.neutron_wavelength_from_velocity(1.0)/1.798)  # velocity of a 1.798 A neutron\n"))
    for name, got, want, tol, code in checks:
        acc.transitions += 1; acc.traces += 1; acc.nontrivial += 1
        if got is None or not abs(got - want) < tol:
            bad("conv:" + name, dict(kind="conv", rule=name), "%r to the printed digits" % want, got, code)
    # vectors: entry i == scalar
    for name, fn, xs, sc in (("neutron_energy", nsf.neutron_energy, grid, E),
                             ("neutron_wavelength_from_velocity", nsf.neutron_wavelength_from_velocity, vel, L),
                             ("neutron_wavelength", nsf.neutron_wavelength, E, None)):
        acc.evaluations += 1; acc.states += 1
        try:
            v = np.asarray(fn(np.array(xs, dtype=float)), dtype=float)
            if sc is None:
                sc = [float(fn(x)) for x in xs]
            ok = v.shape == (len(xs),) and all(abs(float(a) - b) <= 1e-14 * abs(b) for a, b in zip(v, sc))
            obs = v.tolist()
        except Exception as e:
            ok, obs = False, "%s: %s" % (type(e).__name__, e)
        acc.transitions += len(xs); acc.traces += len(xs)
        if not ok:
            bad("conv:vector:" + name, dict(kind="conv", rule="vector", fn=name), "entries equal the scalar calls",
                str(obs)[:300], "x = np.array(%r)\nprint(nsf.%s(x), [nsf.%s(t) for t in x])\n" % (xs[:3], name, name))
    acc.outcome("conversions: 40-point grid, round trips, anchor, vectors")
    acc.sample(dict(kind="conversions", grid=[grid[0], grid[1], grid[-1]], E_lambda2=E[0] * grid[0] ** 2,
                    v_lambda=L[0] * vel[0]))



# ------------------------------------------------------------------ (F) conversions on caller-owned arguments
CONV_VALUES = {
    # function: (reference, two float vectors, two integer vectors)
    "neutron_energy": (rn.energy_of_wavelength, ([4.75, 1.798, 0.5, 10.0], [10.0, 0.9, 4.75, 2.2]),
                       ([5, 2, 1, 12], [1, 12, 5, 3])),
    "neutron_wavelength": (rn.wavelength_of_energy, ([3.63, 25.3, 81.8, 0.9], [0.9, 81.8, 14.7, 3.63]),
                           ([4, 25, 80, 1], [80, 1, 300, 25])),
    "neutron_wavelength_from_velocity": (rn.wavelength_of_velocity, ([832.9, 2200.0, 7912.0, 395.6],
                                                                    [395.6, 7912.0, 1500.5, 832.9]),
                                         ([800, 2200, 8000, 400], [8000, 400, 1500, 2200])),
}


def conversion_arguments(acc, only=None):
    """every conversion function x every kind of argument object: one session of argument_session each"""
    load_pt()
    from periodictable import nsf
    head = ["import numpy as np", "from periodictable import nsf"]
    for name in sorted(CONV_VALUES):
        if only is not None and name != only:
            continue
        ref, fvals, ivals = CONV_VALUES[name]
        fn = getattr(nsf, name)

        def judge(leaves, vals, when, snippet, name=name, fn=fn, ref=ref):
            r = leaves[0]
            kind = judge.kind
            cls = KIND_CLASS[kind]
            shape = () if kind in SCALAR_KINDS else (len(vals),)
            case = dict(kind="convarg", fn=name, argument=kind, values=vals, call=when)
            tag = {"first": "", "second": ":second-call-same-argument", "refilled": ":argument-refilled-in-place"}[when]
            if np.shape(r) != shape:
                acc.violation("conv:shape%s:%s-%s" % (tag, name, cls), case, "a result of shape %r" % (shape,),
                              "shape %r" % (np.shape(r),), standalone=snippet("print({r})"))
                return False
            try:
                got = [float(t) for t in np.ravel(np.asarray(r))]
            except Exception as e:
                got = None
            want = [ref(float(t)) for t in vals]
            ok = got is not None and all(abs(g - w) <= 1e-12 * abs(w) for g, w in zip(got, want))
            if ok:
                # entry i == the scalar call (the library's own second run)
                for g, t in zip(got, vals):
                    acc.evaluations += 1
                    sc = float(fn(float(t)))
                    if not abs(g - sc) <= 1e-14 * abs(sc):
                        ok = False
                        want = "the scalar calls: %r" % ([float(fn(float(t))) for t in vals],)
                        break
            if not ok:
                acc.violation("conv:value%s:%s-%s" % (tag, name, cls), case, want, got if got is not None else repr(r),
                              standalone=snippet("print({r})"))
                return False
            return True

        for kind in ARG_KINDS:
            v1, v2 = ivals if kind in INT_KINDS else fvals
            for n in ((4,) if (kind == "f64-1" or kind in SCALAR_KINDS) else (2, 4)):
                judge.kind = kind
                tolerated = None
                if name == "neutron_wavelength_from_velocity":
                    # 'float or vector': whether a plain list / tuple of velocities is a vector is not said
                    tolerated = lambda k, e: KIND_CLASS[k] in ("list", "tuple") and isinstance(e, TypeError)
                argument_session(acc, name, kind, v1[:n], v2[:n], lambda x: [fn(x)], "[nsf.%s(x)]" % name, judge,
                                 dict(kind="convarg", fn=name), head, tolerated=tolerated)
    acc.outcome("conversions: %d kinds of caller-owned argument" % len(ARG_KINDS))


# ------------------------------------------------------------------ enumeration
def multisets(alphabet, n):
    """canonical fragment lists: combinations with replacement, counts by position."""
    out = []
    for combo in itertools.combinations_with_replacement(range(len(alphabet)), n):
        out.append([(POS_COUNTS[i], alphabet[j]) for i, j in enumerate(combo)])
    return out


def compounds():
    out = [[(1, k)] for k in K]
    for i in range(len(K)):
        for j in range(i + 1, len(K)):
            for ca in COUNTS:
                for cb in COUNTS:
                    out.append([(ca, K[i]), (cb, K[j])])
    return out


def shard(args):
    kind, items, tier = args
    acc = Acc()
    if kind == "conv":
        conversions(acc)
        conversion_arguments(acc)
        return acc
    ed = Edges(acc, tier)
    for it in items:
        frags = [(c, tuple(k)) for c, k in it]
        if kind == "scale":
            ed.scale_edges(frags)
            ed.vector_edges(frags)
        elif kind == "structure":
            ed.structure_edges(frags)
        elif kind == "object":
            ed.object_edges(frags)
        elif kind == "front":
            ed.front_edges(frags, front_kinds(frags, tier))
        elif kind == "default":
            ed.default_edges(frags[0][1])
        else:
            raise MachineryError(kind)
        acc.count("compounds:" + kind)
    if items:
        acc.sample(dict(kind=kind, compound=c03.compound_str(items[0])))
    return acc


def default_items(data):
    """every kind of atom that has neutron data and a density - every element and isotope (D and T are H[2], H[3]), and
    every ion of each that the library lists for the element - as a one-atom compound"""
    pt = load_pt()
    out = []
    for sym, a, _ in c03.all_data_atoms(data):
        for q in (0,) + tuple(pt.elements.symbol(sym).ions):
            if data.has_data((sym, a, q)) is True:
                out.append([(1, (sym, a, q))])
    return out


FRONT_KINDS_REDUCED = ("f64", "list-int")


def front_kinds(frags, tier):
    """kinds of argument object of the front-end sessions of one compound: all of them for the one-atom compounds and
    the pairs over the 9-atom alphabet (thorough: for every compound), an array and a list of integers for the rest"""
    if tier != "quick" or len(frags) == 1 or all(tuple(k) in A9 for c, k in frags):
        return ARG_KINDS
    return FRONT_KINDS_REDUCED


def object_items(quick):
    """compounds of the sessions on caller-owned objects: every one-atom compound and every pair over K (quick: one
    count pair; thorough: all nine)"""
    out = [[(1, k)] for k in K]
    for i in range(len(K)):
        for j in range(i + 1, len(K)):
            for ca, cb in (((1, 2),) if quick else [(a, b) for a in COUNTS for b in COUNTS]):
                out.append([(ca, K[i]), (cb, K[j])])
    return out


def structure_items(quick):
    items = []
    for n in (2, 3):
        items += [m for m in multisets(AC, n) if len(set(k for c, k in m)) > 1
                  and not set(k for c, k in m) <= set(A9)]             # those are among the A9 multisets already
    if quick:
        for n in (1, 2, 3):
            items += multisets(A9, n)
        items += multisets(A3, 4)
    else:
        for n in (1, 2, 3):
            items += multisets(A9, n)
        items += multisets(A6, 4)
    return items


def run(ctx):
    data = rn.NeutronData()
    for k in K + A9 + A3 + A6 + AC:
        if data.has_data(k) is not True:
            raise MachineryError("alphabet atom %r has no data" % (k,))
    tier = ctx.tier
    nsh = max(16, 3 * ctx.jobs)
    jobs = [("conv", [], tier)]
    comps = compounds()
    w = [c03._weight(data, [k for c, k in f]) ** 0.5 for f in comps]
    for chunk in c03._balanced(comps, w, 2 * nsh):
        jobs.append(("scale", chunk, tier))
    sitems = structure_items(ctx.quick)
    sw = [math.factorial(len(f)) * (1, 1, 3, 11)[len(f) - 1] for f in sitems]
    for chunk in c03._balanced(sitems, sw, 2 * nsh):
        jobs.append(("structure", chunk, tier))
    oitems = object_items(ctx.quick)
    ow = [c03._weight(data, [k for c, k in f]) ** 0.25 for f in oitems]
    for chunk in c03._balanced(oitems, ow, nsh):
        jobs.append(("object", chunk, tier))
    fitems = object_items(True)               # the count pair does not matter to a front end
    fw = [(4.0 if front_kinds(f, tier) is ARG_KINDS else 1.0) for f in fitems]
    for chunk in c03._balanced(fitems, fw, nsh):
        jobs.append(("front", chunk, tier))
    ditems = default_items(data)
    dw = [(3.0 if c03._weight(data, [k for c, k in f]) > 7 else 1.0) for f in ditems]
    for chunk in c03._balanced(ditems, dw, nsh):
        jobs.append(("default", chunk, tier))
    ctx.acc.info["default_density_atoms"] = len(ditems)
    ctx.pmap(shard, rotate(jobs, ctx.seed))
    ctx.acc.info["front_end_routes"] = [r for r, _ in Edges(Acc(), tier).routes()]
    ctx.acc.info["argument_kinds"] = list(ARG_KINDS)
    ctx.acc.info["max_fragments"] = 4
    ctx.acc.info["trees_per_size"] = [len(trees([(1, ("H", 0, 0))] * n)) for n in (1, 2, 3, 4)]


def replay(ctx, case, signature=None):
    kind = case.get("kind")
    if kind in ("conv", "convarg"):
        if kind == "conv":
            conversions(ctx.acc)
        else:
            conversion_arguments(ctx.acc, only=case.get("fn"))
        if signature:
            for sig in list(ctx.acc.viol):
                if sig != signature:
                    del ctx.acc.viol[sig]
        return
    ed = Edges(ctx.acc, "thorough")
    if kind == "default":
        ed.default_edges(tuple(case["key"]))
        if signature:
            for sig in list(ctx.acc.viol):
                if sig != signature:
                    del ctx.acc.viol[sig]
        return
    frags = [(c, tuple(k)) for c, k in case["frags"]]
    if kind == "scale":
        ed.scale_edges(frags)
    elif kind == "vector":
        ed.vector_edges(frags, case.get("density", 1.0))
    elif kind == "structure":
        ed.structure_edges(frags)
    elif kind == "object":
        ed.object_edges(frags, case.get("density", 2.33))
    elif kind == "front":
        ed.front_edges(frags)
    else:
        raise MachineryError("unknown case kind %r" % kind)
    if signature:
        for sig in list(ctx.acc.viol):
            if sig != signature:
                del ctx.acc.viol[sig]
