"""C12 - density, natural density, isotope substitution and cell volume are consistent
(E1, setter / getter / replace / volume graph; DESIGN section 4, C12).

State   a formula (real object) + the reference pair (composition, density) kept in lock step.
Roots   every composition of the bound, written as a string, with the density given in every way the
        statement lists (keyword density / natural_density, attribute, '@d', '@di', '@dn'; also with
        the dict and atom constructors for the keyword / attribute forms), density in {none, 0.5, 1, 5}.
Events  f.density = d, f.natural_density = d, f.replace(source, target, portion) for every ordered pair
        of distinct atoms of the alphabet and portion in {0, 0.25, 0.5, 1};
        derivations of a NEW formula from the state: n*f, f+g, f+f, f+=g, f+=f, formula(f),
        formula(f, density=d), formula(f, natural_density=d) - each in two histories: 'read' (every
        memoisable observable of the operands - atoms, mass, charge, mass fractions, density, natural
        density, mass ratio, str, repr, hill, volume by packing and by lattice - is read immediately before
        the operation, on the very object that is used as the operand) and 'unread' (the operand is rebuilt
        from its root by the same history and nothing at all is read from it before the operation).
        The derived formula is judged for what the statement says of ANY formula: its volume estimate
        (every packing spelling) is that of its own composition, its natural density / density ratio is
        that of its own composition, and it is a state like any other for the events that follow.  After
        the operation the operand is judged again (same composition, density, natural density, volume).
Observed in every state: atoms, density, natural_density (when the density is known), the estimated
        volume for every packing spelling; per composition: volume(a, b, c, alpha, beta, gamma) on the
        lattice grid in every call spelling whose defaults the two docstrings agree on.
        The density a derived formula starts with (inherited by n*f, += and formula(f), none for f+g)
        is what the library says - the statement is silent - except for the two keywords of formula(f, ..).
Oracle  mc.ref.density (closed forms).  Signatures are rule:observable (for derivations the rule is
        scale / sum / extend / copy + ':read-operand' or ':unread-operand', and 'operand-after-<rule>' for
        the operand judged again); a wrong natural/actual mass
        ratio that disappears when the same composition is rebuilt from the neutral atoms is named
        natural-mass-ratio:ion-charge-not-kept."""
import copy, itertools, math
from ..common import Acc, load_pt, close, rotate, jdump, MachineryError
from ..ref import density as R

# token, element symbol, mass number (0 natural), charge
ALPHABET = [("H", "H", 0, 0), ("D", "H", 2, 0), ("H[1]", "H", 1, 0), ("O", "O", 0, 0), ("O[18]", "O", 18, 0),
            ("Fe", "Fe", 0, 0), ("Fe[56]", "Fe", 56, 0), ("Fe{2+}", "Fe", 0, 2), ("Fe[56]{3+}", "Fe", 56, 3),
            ("Cl{-}", "Cl", 0, -1), ("At", "At", 0, 0)]
TOKS = [a[0] for a in ALPHABET]
DENS = (0.5, 1, 5)
PORTIONS = (0, 0.25, 0.5, 1)
MULS = (2, 0.5, 1)                              # n*f (n == 1 is the plain copy path of __rmul__)
ADDS = ("H", "Fe[56]{3+}", "self")              # g of f+g / f+=g: a natural element, an isotope ion, f itself
COPIES = [("none", None)] + [(k, d) for k in ("kw_d", "kw_n") for d in DENS]
DERIVED = ("mul", "add", "iadd", "copy")
# spellings that are results of formula arithmetic: the density they start with is not judged
ARITHMETIC = ("scaled-formula", "sum-of-formulas", "extended-formula", "copied-arithmetic-result")
RULE = dict(mul="scale", add="sum", iadd="extend", copy="copy")
REL = 1e-9

LENGTHS = (1.0, 2.5, 4.0, 10.0)
ANGLES = (60.0, 90.0, 100.0, 150.0)
MIN_RADICAND = 1e-3        # "valid cell": clearly positive radicand (the boundary is ill-conditioned)

NAMES = ("cubic", "bcc", "hcp", "fcc", "diamond")
NUMBERS = (0.5, 0.74)

META = dict(
    level="model_checking", engine="E1",
    technique="bounded-exhaustive exploration of the density setter/getter/replace graph with closed-form oracle; lattice grid",
    rule=("breadth-first, level by level, from every root (composition x way of giving the density); a state is the "
          "whole observable (atoms in iteration order with their counts, density) within the graph of its composition; "
          "every event of the alphabet is executed in every state of depth < bound: 6 assignments, 440 "
          "substitutions (11 x 10 ordered atom pairs x 4 portions) and 32 derivations of a new formula (n*f for n in "
          "{2, 0.5, 1}; f+g and f+=g for g in {H, Fe[56]{3+}, f itself}; formula(f), formula(f, density=d), "
          "formula(f, natural_density=d)), each derivation in two histories: operands read immediately before (all "
          "memoisable observables, on the operand objects themselves) and operands never read (rebuilt from the root).  "
          "A derivation is first run unread; the read history is skipped only if the unread one already violates.  The "
          "derived formula and, again, the operand are judged before any merging of equal states.  The dict roots of a "
          "composition all receive ONE caller-owned mapping object, which must come back unaltered.  In states that "
          "contain a derivation in their history the substitutions are restricted to sources that are present and "
          "portions {0.25, 1}.  STRUCTURAL SPELLINGS: every composition (or a multiple of it) is also written as a "
          "parenthesised group, nested groups, with a leading count, with its own count, as a repeated / '+'-joined "
          "fragment, as a flat / repeated / nested (count, fragment) list or tuple, as a mapping, as the atom object, as "
          "formula(formula(..)), and as the arithmetic results n*formula(..), g+g, g+h, 2*(g+g), (g+g)+g, f+=f, f+=g, "
          "formula(2*g), formula(g+g) (from a string and from a sequence) - 50 to 57 spellings - each with no density "
          "and with every way of giving one that the spelling admits (attribute; keywords for strings and sequences; "
          "'@' tags for strings); the root is judged like any other (a CONSTRUCTED one-atom formula defaults to the "
          "atom's density however it is written; the density an arithmetic result starts with is taken as served), then all 6 "
          "assignments and every substitution with a present source (10 targets x portions {0.25, 1}) are executed on "
          "it.  Non-trivial = reached by at least one assignment "
          "of a new value or one substitution whose source is present with portion > 0.  Volumes: all 23 packing "
          "spellings in every state of depth < bound, volume() alone in the deepest states; the lattice grid (4 lengths, 4 angles, every subset of "
          "b, c, alpha, beta, gamma given, 3 call spellings) once per composition."),
    bound=dict(
        quick=("depth 2; compositions: the 11 atoms with count 1, D2, Fe[56]{3+}2, Cl{-}2, and 24 two- and three-atom formulas covering "
               "every class pair (natural / isotope / ion / isotope ion / no tabulated density)"),
        thorough=("depth 2 over the 11 atoms with counts 1, 2, 0.5, every unordered pair of atoms as A2B, and the quick "
                  "list; depth 3 over the 11 atoms (count 1) and 10 two-atom formulas (list DEEP) with the third event "
                  "restricted to assignments and to substitutions whose source is present, portions {0.25, 1}")),
    assumptions=[
        "neutral element / isotope masses, element densities and covalent radii are read from the library (C06, C20); "
        "the electron mass from periodictable.constants",
        "'that atom's density' of a one-atom formula is atom.density as served by the library",
        "a formula is a one-atom formula when its composition holds one atom, however the constructor was given it "
        "(string in any spelling, sequence, mapping, atom, formula(formula(..)))",
        "the density that n*f, f+g, f+=g and formula(f) start with is not judged, also when the result holds one atom "
        "(the statement is silent: (g+g).density is None for every pair of operands): the value "
        "served by the library (None or a positive number) is taken as the density of the derived state; judged are its "
        "volume estimate, its natural density / density ratio, the two keywords of formula(f, ...), and everything that "
        "follows from later events",
        "the observables read in the 'read' histories do not include the scattering calculators (C03, C05 own them)",
        "both keywords at once, a keyword together with a tag, natural_density of a formula whose density is unknown, "
        "replace(a, a, p), and assigning None are not in the alphabet (the statement is silent)",
        "the default density of a formula of several atoms is not judged; where the library leaves it None that is the "
        "'unknown density' state",
        "after a substitution on a formula of unknown density that leaves a single atom the density is not judged "
        "('stays unknown' and 'a single-atom formula defaults to that atom's density' both apply)",
        "zero-count entries left behind by a substitution are ignored",
        "lattice calls that omit beta or gamma while giving alpha != 90 are excluded: cell_volume documents 'beta and "
        "gamma default to alpha', Formula.volume documents 'these default to 90 degrees'",
        "cells with radicand < 1e-3 are not 'valid cells' (degenerate or ill-conditioned)",
        "packing names are accepted in any letter case (the design's reading of 'all packing names')",
    ],
    level_text=("every event sequence up to the depth, from every listed way of giving a density, was executed on the "
                "real objects and every reachable state agreed with the closed forms to 1e-9; nothing is claimed for "
                "other atoms, counts, densities, portions or lattice parameters"),
    level_note=("trusted: mc.ref.density (40 lines of arithmetic), Formula.atoms, copy.copy of a Formula (used to branch "
                "from a state for in-place events, and to clone a never-read root for the 'unread' histories)"),
)


# ------------------------------------------------------------------ environment
class Env(object):
    def __init__(self):
        pt = load_pt()
        from periodictable import formula, constants
        self.pt, self.formula = pt, formula
        me = constants.electron_mass
        self.atom, self.tok_of, self.mass, self.natmass, self.radius, self.adens = {}, {}, {}, {}, {}, {}
        self.has_ion = {}
        for tok, sym, A, q in ALPHABET:
            el = getattr(pt, sym)
            base = el[A] if A else el
            a = base.ion[q] if q else base
            self.atom[tok] = a
            self.tok_of[id(a)] = tok
            self.mass[tok] = base.mass - q * me
            self.natmass[tok] = el.mass - q * me
            self.radius[tok] = el.covalent_radius
            self.adens[tok] = a.density
            self.has_ion[tok] = q != 0
        # the neutral atom behind every token (counterfactual for the attribution of a wrong mass ratio)
        self.neutral, self.n_atom, self.n_mass, self.n_natmass = {}, {}, {}, {}
        for tok, sym, A, q in ALPHABET:
            el = getattr(pt, sym)
            base = el[A] if A else el
            key = (sym, A)
            self.neutral[tok] = key
            self.n_atom[key] = base
            self.n_mass[key] = base.mass
            self.n_natmass[key] = el.mass

    def pyname(self, tok):
        sym, A, q = [(s, A, q) for t, s, A, q in ALPHABET if t == tok][0]
        s = "pt.D" if tok == "D" else "pt.%s" % sym + ("[%d]" % A if A else "")
        return s + (".ion[%d]" % q if q else "")


_ENV = None
def env():
    global _ENV
    if _ENV is None:
        _ENV = Env()
    return _ENV


def ctext(c):
    if c == 1:
        return ""
    return "%d" % c if c == int(c) else repr(float(c))


def comp_text(entries):
    return "".join(t + ctext(c) for t, c in entries)


# ------------------------------------------------------------------ compositions
MULTI = ["H2 O", "D2 O", "H D O", "H[1]2 O[18]", "D0.5 H1.5 O", "Fe O", "Fe2 O3", "Fe[56]2 O[18]3", "Fe[56] Fe",
         "Fe{2+} Cl{-}2", "Fe[56]{3+} Cl{-}3", "Fe{2+} O", "Fe[56]{3+} O[18] H", "Fe{2+} Fe[56]{3+}", "Fe Fe{2+}",
         "Fe[56] Fe[56]{3+}", "Cl{-} H", "Cl{-} D", "At H", "At Cl{-}", "At2 O[18]", "H H[1] D",
         "Fe{2+}0.5 Fe[56]{3+}0.5 Cl{-}2.5", "O[18] O"]


# thorough tier: explored to depth 3 (together with the 11 atoms with count 1)
DEEP = ["H2 O", "D2 O", "H[1]2 O[18]", "Fe[56]2 O[18]3", "Fe{2+} Cl{-}2", "Fe[56]{3+} Cl{-}3", "Fe{2+} Fe[56]{3+}",
        "Fe[56] Fe", "Cl{-} D", "At H"]


def _parse_comp(text):
    out = []
    for part in text.split():
        tok = max((t for t in TOKS if part.startswith(t)), key=len)
        rest = part[len(tok):]
        out.append((tok, (float(rest) if "." in rest else int(rest)) if rest else 1))
    return out


def compositions(tier):
    """[(label, entries)]; entries are listed in the order they are written."""
    out = []
    for t in TOKS:
        for c in (1, 2, 0.5):
            if tier != "quick" or c == 1 or (c == 2 and t in ("D", "Fe[56]{3+}", "Cl{-}")):
                out.append([(t, c)])
    for m in MULTI:
        out.append(_parse_comp(m))
    if tier != "quick":
        have = set(comp_text(e) for e in out)
        for a, b in itertools.combinations(TOKS, 2):
            e = [(a, 2), (b, 1)]
            if comp_text(e) not in have:
                out.append(e)
    return out


# ------------------------------------------------------------------ reading an operand before it is used
READS = (lambda f: f.atoms, lambda f: f.mass, lambda f: f.charge, lambda f: f.molecular_mass,
         lambda f: f.mass_fraction, lambda f: f.density, lambda f: f.natural_mass_ratio(),
         lambda f: f.natural_density, lambda f: str(f), lambda f: repr(f), lambda f: f.hill,
         lambda f: f.volume(), lambda f: f.volume("cubic"), lambda f: f.volume(packing_factor=0.5),
         lambda f: f.volume(a=2.0, b=3.0, c=4.0))

READ_CODE = """def read(f):
    for get in (lambda: f.atoms, lambda: f.mass, lambda: f.charge, lambda: f.molecular_mass, lambda: f.mass_fraction,
                lambda: f.density, lambda: f.natural_mass_ratio(), lambda: f.natural_density, lambda: str(f),
                lambda: repr(f), lambda: f.hill, lambda: f.volume(), lambda: f.volume("cubic"),
                lambda: f.volume(packing_factor=0.5), lambda: f.volume(a=2.0, b=3.0, c=4.0)):
        try: get()
        except Exception: pass"""


def read(f):
    """Read every memoisable observable of a formula; the values are not judged here (some are not defined
    for every formula: natural density of an unknown density, mass fractions of nothing)."""
    for get in READS:
        try:
            get(f)
        except Exception:
            pass


# ------------------------------------------------------------------ one state
class State(object):
    __slots__ = ("f", "comp", "rho", "hist", "nontrivial", "vol_done")

    def __init__(self, f, comp, rho, hist, nontrivial=False):
        self.f, self.comp, self.rho, self.hist, self.nontrivial = f, comp, rho, hist, nontrivial
        self.vol_done = False


class Graph(object):
    """Exploration of the graph of one composition."""
    def __init__(self, E, entries, acc, tier):
        self.E, self.entries, self.acc, self.tier = E, entries, acc, tier
        self.text = comp_text(entries)
        self.comp0 = {}
        for t, c in entries:
            self.comp0[t] = self.comp0.get(t, 0) + c
        self.seen = set()
        self.broken = False
        self.pristine = {}          # root form -> a formula built once and never read
        self._tail = None
        self._calls = None
        self._dict = self._dict_snap = None

    # ---- structural spellings of the composition
    def spellings(self):
        """[(class, kind, payload, factor)]: other ways of writing factor x the composition.  kind 'str': a formula
        string; 'obj': a Python expression for a (count, fragment) sequence or mapping over the atoms A[i] of the
        entries; 'code': statements that derive f from other formulas."""
        T = self.text
        ent = self.entries
        seq = ", ".join("(%r, A[%d])" % (c, i) for i, (t, c) in enumerate(ent))
        out = [("group", "str", "(%s)" % T, 1), ("group", "str", "(%s)2" % T, 2), ("group", "str", "((%s)2)3" % T, 6),
               ("leading-count", "str", "2%s" % T, 2), ("leading-count", "str", "0.5%s" % T, 0.5),
               ("leading-count", "str", "2 %s" % T, 2),
               ("repeated", "str", "%s%s" % (T, T), 2), ("repeated", "str", "%s %s" % (T, T), 2),
               ("repeated", "str", "%s+%s" % (T, T), 2), ("repeated", "str", "%s + %s" % (T, T), 2),
               ("repeated", "str", "2%s 3%s" % (T, T), 5), ("repeated", "str", "%s 2%s" % (T, T), 3),
               ("repeated", "str", "%s (%s)2" % (T, T), 3)]
        if len(ent) == 1 and ent[0][1] == 1:
            out += [("own-count", "str", "%s2" % T, 2), ("own-count", "str", "%s0.5" % T, 0.5),
                    ("leading-count", "str", "2%s2" % T, 4), ("group", "str", "(%s2)3" % T, 6),
                    ("repeated", "str", "%s2%s0.5" % (T, T), 2.5), ("repeated", "str", "%s %s2" % (T, T), 3),
                    ("atom", "obj", "A[0]", 1)]
        out += [("sequence", "obj", "[%s]" % seq, 1), ("sequence", "obj", "(%s,)" % seq, 1),
                ("sequence", "obj", "[%s, %s]" % (seq, seq), 2), ("sequence", "obj", "[(2, [%s])]" % seq, 2),
                ("sequence", "obj", "((2, ((1, (%s,)),)),)" % seq, 2), ("sequence", "obj", "[(3, [(2, [%s])])]" % seq, 6),
                ("sequence", "obj", "[(1, [%s]), (2, (%s,))]" % (seq, seq), 3)]
        if len(set(t for t, _ in ent)) == len(ent):
            out.append(("mapping", "obj", "{%s}" % ", ".join("A[%d]: %r" % (i, 3 * c) for i, (t, c) in enumerate(ent)), 3))
        for src, tag in (("formula(%r)" % T, "string"), ("formula([%s])" % seq, "sequence")):
            out += [("scaled-formula", "code", "f = 2 * %s" % src, 2), ("scaled-formula", "code", "f = 0.5 * %s" % src, 0.5),
                    ("scaled-formula", "code", "f = 1 * %s" % src, 1),
                    ("sum-of-formulas", "code", "g = %s; f = g + g" % src, 2),
                    ("sum-of-formulas", "code", "g = %s; h = %s; f = g + h" % (src, src), 2),
                    ("sum-of-formulas", "code", "g = %s; f = 2 * (g + g)" % src, 4),
                    ("sum-of-formulas", "code", "g = %s; f = (g + g) + g" % src, 3),
                    ("extended-formula", "code", "f = %s; f += f" % src, 2),
                    ("extended-formula", "code", "f = %s; f += %s" % (src, src), 2),
                    ("copied-formula", "code", "f = formula(%s)" % src, 1),
                    ("copied-arithmetic-result", "code", "f = formula(2 * %s)" % src, 2),
                    ("copied-arithmetic-result", "code", "g = %s; f = formula(g + g)" % src, 2)]
        out.append(("scaled-formula", "code", "f = 2 * formula(%r)" % ("(%s)2" % T), 4))
        return out

    def spell_code(self, form):
        dk, (klass, kind, payload, factor), d = form[0][6:], form[1], form[2]
        kw = dict(kw_d=", density=%r" % (d,), kw_n=", natural_density=%r" % (d,)).get(dk, "")
        if kind == "str":
            tag = dict(tag_d="@%s", tag_i="@%si", tag_n="@%sn").get(dk)
            code = "f = formula(%r%s)" % (payload + (tag % (ctext(d) or "1") if tag else ""), kw)
        elif kind == "obj":
            code = "f = formula(%s%s)" % (payload, kw)
        else:
            code = payload
        if dk == "attr_d":
            code += "; f.density = %r" % (d,)
        elif dk == "attr_n":
            code += "; f.natural_density = %r" % (d,)
        return code

    def spelled_forms(self):
        out = []
        for sp in self.spellings():
            kinds = ["none", "attr_d", "attr_n"]
            if sp[1] in ("str", "obj"):
                kinds += ["kw_d", "kw_n"]
            if sp[1] == "str":
                kinds += ["tag_d", "tag_i", "tag_n"]
            for dk in kinds:
                out.append(["spell:" + dk, list(sp), None if dk == "none" else 5 if dk.endswith("_n") else 0.5])
        return out

    def spelled_rule(self, form, one):
        dk, klass = form[0][6:], form[1][0]
        if dk == "none":
            return "default-density:%s:%s" % ("one-atom" if one else "several-atoms", klass)
        return "construct:%s:%s" % (dk.replace("_", "-"), klass)

    def spelled_unit(self, form, history=None):
        """One spelling of (a multiple of) the composition, with one way of giving the density: the root state is
        judged like any other (a one-atom formula defaults to the atom's density however it is written), then
        every assignment and every substitution whose source is present is executed on it (the structure is
        nested, repeated or shared between formulas).  history: replay exactly these events instead."""
        E, acc = self.E, self.acc
        dk, factor = form[0][6:], form[1][3]
        comp = dict((t, c * factor) for t, c in self.comp0.items())
        one = len(R.nonzero(comp)) == 1
        rule = self.spelled_rule(form, one)
        acc.evaluations += 1
        try:
            f = self.root(form)
        except Exception as e:
            self.viol(rule + ":raises", form, (), "a formula", "%s: %s" % (type(e).__name__, e))
            return
        rho = self.root_rho(form)
        judged = one or dk != "none"
        arithmetic = dk == "none" and form[1][0] in ARITHMETIC
        if arithmetic:
            # the density an arithmetic result starts with is what the library says (the statement is silent: the
            # default of a one-atom formula is about how a formula is constructed, not about what a sum carries)
            judged = False
        if not self.check_state(f, comp, rho, rule, form, (), rho_judged=judged,
                                ratio_dependent_density=dk in ("kw_n", "attr_n", "tag_n")):
            return
        acc.count("spelled_roots")
        acc.outcome("spelled:%s:%s" % (form[1][0], dk))
        if arithmetic:
            try:
                rho = f.density
            except Exception as e:
                self.viol(rule + ":density-raises", form, (), "a density or None", "%s: %s" % (type(e).__name__, e))
                return
            if rho is not None and not (isinstance(rho, (int, float)) and 0 < rho < float("inf")):
                acc.outcome("spelled:density-not-a-positive-number(not judged)")
                return
            acc.outcome("spelled:arithmetic-result:%s(not judged)" % ("density-unknown" if rho is None else "density-served"))
            if not self.check_state(f, comp, rho, rule, form, ()):      # natural density / density ratio of ITS composition
                return
        elif not judged:
            return
        st = State(f, comp, rho, (), False)
        if history is not None:
            for ev in history:
                st = self.step(st, tuple(ev), form)
                if st is None:
                    return
            self.check_packing(st, form, True)
            return
        acc.states += 1
        if not self.check_packing(st, form, dk == "none"):
            return
        evs = [("setd", d) for d in DENS] + [("setn", d) for d in DENS]
        for s_ in TOKS:
            if comp.get(s_, 0) != 0:
                evs += [("rep", s_, t_, p) for t_ in TOKS if t_ != s_ for p in (0.25, 1)]
        for ev in evs:
            new = self.step(st, ev, form, True)
            if new is not None:
                acc.states += 1
                if new.nontrivial:
                    acc.nontrivial += 1
                self.check_packing(new, form, False)

    # ---- building
    def compound(self, how):
        E = self.E
        if how == "str":
            return self.text
        if how == "dict":
            # ONE mapping object per composition, owned by the harness and passed to every dict root (all ways of
            # giving the density, one after the other): it must come back unaltered, and a later call with other
            # keyword values must not see anything of the earlier ones
            if self._dict is None:
                self._dict = dict((E.atom[t], c) for t, c in self.comp0.items())
                self._dict_snap = [(id(a), c) for a, c in self._dict.items()]
            return self._dict
        if how == "atom":
            return E.atom[self.entries[0][0]]
        raise MachineryError(how)

    def compound_code(self, how):
        E = self.E
        if how == "str":
            return repr(self.text)
        if how == "dict":
            return "{%s}" % ", ".join("%s: %r" % (E.pyname(t), c) for t, c in self.comp0.items())
        return E.pyname(self.entries[0][0])

    def root(self, form):
        """form = [kind, how, d]; returns the real formula."""
        kind, how, d = form
        F = self.E.formula
        if kind.startswith("spell:"):
            ns = dict(formula=F, pt=self.E.pt, A=[self.E.atom[t] for t, _ in self.entries])
            exec(self.spell_code(form), ns)
            return ns["f"]
        if kind == "none":
            return F(self.compound(how))
        if kind == "kw_d":
            return F(self.compound(how), density=d)
        if kind == "kw_n":
            return F(self.compound(how), natural_density=d)
        if kind == "attr_d":
            f = F(self.compound(how)); f.density = d; return f
        if kind == "attr_n":
            f = F(self.compound(how)); f.natural_density = d; return f
        if kind in ("tag_d", "tag_i", "tag_n"):
            return F(self.text + "@" + (ctext(d) or "1") + dict(tag_d="", tag_i="i", tag_n="n")[kind])
        raise MachineryError(kind)

    def root_code(self, form):
        kind, how, d = form
        if kind.startswith("spell:"):
            return "A = [%s]\n%s" % (", ".join(self.E.pyname(t) for t, _ in self.entries), self.spell_code(form))
        c = self.compound_code(how)
        if kind == "none":
            return "f = formula(%s)" % c
        if kind == "kw_d":
            return "f = formula(%s, density=%r)" % (c, d)
        if kind == "kw_n":
            return "f = formula(%s, natural_density=%r)" % (c, d)
        if kind == "attr_d":
            return "f = formula(%s); f.density = %r" % (c, d)
        if kind == "attr_n":
            return "f = formula(%s); f.natural_density = %r" % (c, d)
        return "f = formula(%r)" % (self.text + "@" + (ctext(d) or "1") + dict(tag_d="", tag_i="i", tag_n="n")[kind])

    def root_rho(self, form):
        kind, how, d = form
        if kind.startswith("spell:"):
            kind = kind[6:]
        if kind == "none":
            nz = R.nonzero(self.comp0)
            return self.E.adens[list(nz)[0]] if len(nz) == 1 else None
        if kind in ("kw_d", "attr_d", "tag_d", "tag_i"):
            return float(d)
        return d / R.ratio(self.comp0, self.E.mass, self.E.natmass)

    # ---- reporting
    def case(self, form, hist, extra=None):
        c = dict(comp=[[t, c] for t, c in self.entries], root=list(form), history=[list(e) for e in hist])
        if extra:
            c.update(extra)
        return c

    def snippet(self, form, hist, tail=None):
        E = self.E
        lines = ["import periodictable as pt", "from periodictable import formula", self.root_code(form)]
        for ev in hist:
            if ev[0] == "setd":
                lines.append("f.density = %r" % ev[1])
            elif ev[0] == "setn":
                lines.append("f.natural_density = %r" % ev[1])
            elif ev[0] == "rep":
                lines.append("f = f.replace(%s, %s, %r)" % (E.pyname(ev[1]), E.pyname(ev[2]), ev[3]))
            else:
                if ev[-1]:
                    lines.append("read(f)")
                lines.append(self.derive_code(ev))
        if any(ev[0] in DERIVED and ev[-1] for ev in hist):
            lines.insert(2, READ_CODE)
        lines.append(tail or self._tail or
                     "print(f.atoms, f.density, f.natural_density if f.density is not None else None)")
        return "\n".join(lines) + "\n"

    def viol(self, sig, form, hist, expected, observed, extra=None, tail=None):
        self.acc.violation(sig, self.case(form, hist, extra), expected=expected, observed=observed,
                           standalone=self.snippet(form, hist, tail))

    # ---- attribution of a wrong mass ratio to the ions in the composition
    def ratio_sig(self, comp, sig, relation):
        """If the composition contains ions and the same relation (getter: natural density of a known density;
        setter: density of a given natural density) holds on the composition rebuilt from the neutral atoms,
        the cause is that the ion charge is not kept in the natural mass."""
        E = self.E
        nz = R.nonzero(comp)
        if not any(E.has_ion[t] for t in nz):
            return sig
        neutral = {}
        for t, c in nz.items():
            n = E.neutral[t]
            neutral[n] = neutral.get(n, 0) + c
        try:
            r = R.ratio(neutral, E.n_mass, E.n_natmass)
            d = dict((E.n_atom[t], c) for t, c in neutral.items())
            f = E.formula(d, density=1.0)
            if relation == "getter":
                ok = close(f.natural_density, r, REL)
            else:
                f.natural_density = 1.0
                ok = close(f.density, 1.0 / r, REL)
        except Exception:
            ok = False
        self.acc.evaluations += 2
        return "natural-mass-ratio:ion-charge-not-kept" if ok else sig

    # ---- the state oracle
    def check_state(self, f, comp, rho, rule, form, hist, rho_judged=True, ratio_dependent_density=False):
        """Compare the real formula with the reference pair.  Returns True if the state is sound."""
        E, acc = self.E, self.acc
        acc.evaluations += 3
        try:
            A = f.atoms
            got = {}
            for a, c in A.items():
                if c != 0:
                    t = E.tok_of.get(id(a))
                    if t is None:
                        raise KeyError("foreign atom %r" % (a,))
                    got[t] = c
        except Exception as e:
            self.viol(rule + ":atoms-raises", form, hist, "atoms", "%s: %s" % (type(e).__name__, e))
            return False
        want = R.nonzero(comp)
        if set(got) != set(want) or any(not close(got[t], want[t], 1e-12, 0) for t in want):
            self.viol(rule + ":atoms", form, hist, sorted(want.items()), sorted(got.items()))
            return False
        if not rho_judged:
            return True
        try:
            d = f.density
        except Exception as e:
            self.viol(rule + ":density-raises", form, hist, rho, "%s: %s" % (type(e).__name__, e))
            return False
        if not close(d, rho, REL):
            sig = rule + ":density"
            if ratio_dependent_density:
                sig = self.ratio_sig(comp, sig, "setter")
            self.viol(sig, form, hist, rho, d)
            return False
        if rho is None:
            acc.outcome("density-unknown")
            return True
        try:
            nd = f.natural_density
            d2 = f.density
        except Exception as e:
            self.viol(rule + ":natural-density-raises", form, hist, "a number", "%s: %s" % (type(e).__name__, e))
            return False
        want_nd = rho * R.ratio(want, E.mass, E.natmass)
        if not close(nd, want_nd, REL):
            self.viol(self.ratio_sig(comp, rule + ":natural-density", "getter"), form, hist, want_nd, nd)
            return False
        if d2 != d:
            self.viol(rule + ":reading-natural-density-changes-density", form, hist, d, d2)
            return False
        return True

    # ---- packing volumes
    def packing_calls(self):
        if self._calls is None:
            self._calls = self._packing_calls()
        return self._calls

    def _packing_calls(self):
        out = [("default", None, (), {})]
        for n in NAMES:
            for sp in (n, n.upper(), n.capitalize()):
                out.append((n, n, (sp,), {}))
            out.append((n, n, (), dict(packing_factor=n)))
        for x in NUMBERS:
            out.append(("number", x, (x,), {}))
            out.append(("number", x, (), dict(packing_factor=x)))
        return out

    def check_packing(self, st, form, full, suffix=""):
        E, acc = self.E, self.acc
        calls = self.packing_calls()
        if not full:
            calls = calls[:1]
        comp = R.nonzero(st.comp)
        for label, pf, args, kw in calls:
            pfv = R.PACKING["hcp"] if pf is None else R.PACKING[pf] if label != "number" else pf
            want = R.packing_volume(comp, E.radius, pfv)
            acc.evaluations += 1
            try:
                got = st.f.volume(*args, **dict(kw))
            except Exception as e:
                got = e
            if isinstance(got, Exception) or not close(got, want, REL):
                call = "f.volume(%s)" % ", ".join([repr(a) for a in args] + ["%s=%r" % kv for kv in kw.items()])
                self.viol("volume-packing:" + label + suffix, form, st.hist, want,
                          got if not isinstance(got, Exception) else "%s: %s" % (type(got).__name__, got),
                          extra=dict(packing=[list(args), kw]), tail="print(%s)" % call)
                return False
        return True

    # ---- lattice grid
    def check_lattice(self, f, form):
        acc = self.acc
        names = ("a", "b", "c", "alpha", "beta", "gamma")
        reported = []
        n_excl = n_invalid = n_done = 0
        for k in range(5, -1, -1):                           # fewest omissions first
            for given in itertools.combinations(names[1:], k):
                omitted = frozenset(names[1:]) - frozenset(given)
                if any(o <= omitted for o in reported):
                    continue
                params = ("a",) + given
                grids = [LENGTHS if p in "abc" else ANGLES for p in params]
                for values in itertools.product(*grids):
                    v = dict(zip(params, values))
                    al = v.get("alpha")
                    if al is not None and al != 90.0 and ("beta" not in v or "gamma" not in v):
                        n_excl += 1
                        continue
                    a = v["a"]
                    b, c = v.get("b", a), v.get("c", a)
                    alpha = v.get("alpha", 90.0)
                    beta, gamma = v.get("beta", 90.0), v.get("gamma", 90.0)
                    if R.cell_radicand(alpha, beta, gamma) < MIN_RADICAND:
                        n_invalid += 1
                        continue
                    want = R.cell_volume(a, b, c, alpha, beta, gamma)
                    spellings = [((), v)]
                    if len(params) >= 2:
                        spellings.append(((a,), dict((p, v[p]) for p in given)))
                        if params == names[:len(params)]:
                            spellings.append((tuple(values), {}))
                    bad = None
                    for args, kw in spellings:
                        acc.evaluations += 1
                        n_done += 1
                        try:
                            got = f.volume(*args, **dict(kw))
                        except Exception as e:
                            got = e
                        if isinstance(got, Exception) or not close(got, want, REL):
                            bad = (args, kw, got)
                            break
                    if bad:
                        args, kw, got = bad
                        call = "f.volume(%s)" % ", ".join([repr(x) for x in args] +
                                                           ["%s=%r" % (p, kw[p]) for p in names if p in kw])
                        sig = "volume-lattice:" + ("all-given" if not omitted else
                                                   "default-of-" + "-".join(p for p in names if p in omitted))
                        self.viol(sig, form, (), want,
                                  got if not isinstance(got, Exception) else "%s: %s" % (type(got).__name__, got),
                                  extra=dict(lattice=[list(args), kw]), tail="print(%s)" % call)
                        reported.append(omitted)
                        break
        acc.count("lattice_calls", n_done)
        acc.count("lattice_excluded_default_conflict", n_excl)
        acc.count("lattice_points_without_valid_cell", n_invalid)
        return not reported

    # ---- derivations of a new formula
    def derive(self, f, ev):
        """The bare operation on the real objects; returns (result, g)."""
        E = self.E
        k = ev[0]
        if k == "mul":
            return ev[1] * f, None
        if k in ("add", "iadd"):
            if ev[1] == "self":
                g = f
            else:
                g = E.formula(E.atom[ev[1]])
                if ev[-1]:
                    read(g)
            if k == "add":
                return f + g, g
            f += g
            return f, g
        if k == "copy":
            if ev[1] == "none":
                return E.formula(f), None
            if ev[1] == "kw_d":
                return E.formula(f, density=ev[2]), None
            if ev[1] == "kw_n":
                return E.formula(f, natural_density=ev[2]), None
        raise MachineryError(ev)

    def derive_code(self, ev):
        k = ev[0]
        g = "f0" if ev[1] == "self" else "g"
        pre = "f0 = f; "
        if k in ("add", "iadd") and ev[1] != "self":
            pre += "g = formula(%s); " % self.E.pyname(ev[1]) + ("read(g); " if ev[-1] else "")
        if k == "mul":
            return pre + "f = %r * f0" % (ev[1],)
        if k == "add":
            return pre + "f = f0 + %s" % g
        if k == "iadd":
            return pre + "f += %s" % g
        return pre + "f = formula(f0%s)" % dict(none="", kw_d=", density=%r" % (ev[2],),
                                               kw_n=", natural_density=%r" % (ev[2],))[ev[1]]

    def derive_ref(self, comp, ev):
        k = ev[0]
        if k == "mul":
            return dict((t, c * ev[1]) for t, c in comp.items())
        if k in ("add", "iadd"):
            if ev[1] == "self":
                return dict((t, 2 * c) for t, c in comp.items())
            new = dict(comp)
            new[ev[1]] = new.get(ev[1], 0) + 1
            return new
        return dict(comp)

    def fresh(self, form, hist):
        """The formula of a state rebuilt from its root by the same history without reading anything from it
        (but for the reads that the history itself contains)."""
        E = self.E
        key = jdump(form)
        if key not in self.pristine:
            self.pristine[key] = self.root(form)
        f = copy.copy(self.pristine[key])
        for ev in hist:
            k = ev[0]
            if k == "setd":
                f.density = ev[1]
            elif k == "setn":
                f.natural_density = ev[1]
            elif k == "rep":
                f = f.replace(E.atom[ev[1]], E.atom[ev[2]], ev[3])
            else:
                if ev[-1]:
                    read(f)
                f, _ = self.derive(f, ev)
        return f

    def step_derived(self, st, ev, form, hist, last):
        E, acc = self.E, self.acc
        k, rd = ev[0], ev[-1]
        rule = RULE[k] + (":read-operand" if rd else ":unread-operand")
        acc.count("derivations")
        if rd:
            f = copy.copy(st.f) if k == "iadd" else st.f       # in place: branch from the state
            read(f)
        else:
            try:
                f = self.fresh(form, st.hist)
            except Exception as e:
                self.viol("unread-history:raises", form, st.hist, "the formula of the state",
                          "%s: %s" % (type(e).__name__, e))
                return None
        comp = self.derive_ref(st.comp, ev)
        try:
            r, g = self.derive(f, ev)
        except Exception as e:
            self.viol(rule + ":raises", form, hist, "a formula", "%s: %s" % (type(e).__name__, e))
            return None
        rdep = False
        if k == "copy" and ev[1] == "kw_d":
            rho = float(ev[2])
        elif k == "copy" and ev[1] == "kw_n":
            rho = ev[2] / R.ratio(R.nonzero(comp), E.mass, E.natmass)
            rdep = True
        else:
            # not judged: the density a derived formula starts with is what the library says
            try:
                rho = r.density
            except Exception as e:
                self.viol(rule + ":density-raises", form, hist, "a density or None", "%s: %s" % (type(e).__name__, e))
                return None
            if rho is not None and not (isinstance(rho, (int, float)) and 0 < rho < float("inf")):
                acc.outcome("derived:density-not-a-positive-number(not judged)")
                return None
        new = State(r, comp, rho, hist, True)
        ok = self.check_state(r, comp, rho, rule, form, hist, ratio_dependent_density=rdep)
        if ok:
            ok = self.check_packing(new, form, not last, suffix=":" + rule)
            new.vol_done = True
        if ok and k != "iadd":
            # the operand, judged again after it has been used
            rule2 = "operand-after-" + RULE[k]
            self._tail = "print(f0.atoms, f0.density, f0.volume())"
            try:
                ok = (self.check_state(f, st.comp, st.rho, rule2, form, hist)
                      and self.check_packing(State(f, st.comp, st.rho, hist), form, False, suffix=":" + rule2))
            finally:
                self._tail = None
        if ok:
            acc.outcome(rule + (":unknown-density" if rho is None else ""))
        return new if ok else None

    # ---- events
    def events(self, st, last_level):
        evs = []
        for d in DENS:
            evs.append(("setd", d))
        for d in DENS:
            evs.append(("setn", d))
        derived = any(ev[0] in DERIVED for ev in st.hist)
        reduced = (last_level and self.tier != "quick" and len(st.hist) >= 2) or derived
        portions = (0.25, 1) if reduced else PORTIONS
        for s in TOKS:
            if reduced and st.comp.get(s, 0) == 0:
                continue
            for t in TOKS:
                if s != t:
                    for p in portions:
                        evs.append(("rep", s, t, p))
        for op in ([("mul", n) for n in MULS] + [("add", g) for g in ADDS] + [("iadd", g) for g in ADDS]
                   + [("copy", k, d) for k, d in COPIES]):
            evs.append(op + (0,))          # operand never read
            evs.append(op + (1,))          # operand read immediately before
        return evs

    def step(self, st, ev, form, last=False):
        """Execute one event on the real object and on the reference; returns the new State or None."""
        E, acc = self.E, self.acc
        hist = st.hist + (ev,)
        acc.transitions += 1
        acc.evaluations += 1
        k = ev[0]
        if k == "setd":
            g = copy.copy(st.f)
            try:
                g.density = ev[1]
            except Exception as e:
                self.viol("set-density:raises", form, hist, "assignment", "%s: %s" % (type(e).__name__, e))
                return None
            new = State(g, st.comp, float(ev[1]), hist, True)
            ok = self.check_state(g, new.comp, new.rho, "set-density", form, hist)
        elif k == "setn":
            g = copy.copy(st.f)
            try:
                g.natural_density = ev[1]
            except Exception as e:
                self.viol("set-natural-density:raises", form, hist, "assignment", "%s: %s" % (type(e).__name__, e))
                return None
            rho = ev[1] / R.ratio(R.nonzero(st.comp), E.mass, E.natmass)
            new = State(g, st.comp, rho, hist, True)
            ok = self.check_state(g, new.comp, rho, "set-natural-density", form, hist, ratio_dependent_density=True)
        elif k in DERIVED:
            return self.step_derived(st, ev, form, hist, last)
        else:
            _, s, t, p = ev
            comp, rho = R.replace(st.comp, st.rho, s, t, p, E.mass)
            try:
                g = st.f.replace(E.atom[s], E.atom[t], p)
            except Exception as e:
                why = "unknown-density" if st.rho is None else "known-density"
                self.viol("replace:raises:" + why, form, hist, "a formula with %s" % sorted(R.nonzero(comp).items()),
                          "%s: %s" % (type(e).__name__, e))
                return None
            judged = not (st.rho is None and len(R.nonzero(comp)) <= 1)
            moved = s in st.comp and st.comp[s] != 0 and p > 0
            new = State(g, comp, rho, hist, st.nontrivial or moved)
            ok = self.check_state(g, comp, rho, "replace", form, hist, rho_judged=judged)
            if ok and not judged:
                acc.outcome("replace:unknown-density-single-atom-left(not judged)")
                return None
            if ok:
                acc.outcome("replace:" + ("source-absent" if s not in st.comp else
                                          "portion-0" if p == 0 else "partial" if p < 1 else "complete")
                            + (":unknown-density" if rho is None else ""))
        return new if ok else None

    def canon(self, st):
        try:
            return (tuple((id(a), c) for a, c in st.f.atoms.items()), st.f.density)
        except Exception:
            return None

    # ---- the whole graph
    def run(self, depth):
        E, acc = self.E, self.acc
        single = len(self.entries) == 1 and self.entries[0][1] == 1
        hows = ["str", "dict"] + (["atom"] if single else [])
        base = ["none", "str", None]
        # step 1: plain construction, default density
        try:
            f0 = self.root(base)
        except Exception as e:
            raise MachineryError("cannot build %r: %r" % (self.text, e))
        acc.evaluations += 1
        comp0 = dict(self.comp0)
        one = len(R.nonzero(comp0)) == 1
        rule0 = "default-density:" + ("one-atom" if one else "several-atoms")
        # the statement gives the default of a one-atom formula only; a formula of several atoms without a
        # density is the "unknown" state if the library says None, and is not judged (nor explored) otherwise
        if not self.check_state(f0, comp0, self.root_rho(base), rule0, base, (), rho_judged=one):
            return
        # steps 2, 3: the bare setter / getter pair
        for kind in ("attr_d", "attr_n"):
            for d in DENS:
                form = [kind, "str", d]
                acc.evaluations += 1
                f = self.root(form)
                rule = "set-density" if kind == "attr_d" else "set-natural-density"
                if not self.check_state(f, comp0, self.root_rho(form), rule, form, (),
                                        ratio_dependent_density=(kind == "attr_n")):
                    return
        # step 4: every other way of giving the density
        roots = []
        for how in hows:
            forms = [["none", how, None]]
            for d in DENS:
                forms += [[k, how, d] for k in ("kw_d", "kw_n", "attr_d", "attr_n")]
                if how == "str":
                    forms += [[k, how, d] for k in ("tag_d", "tag_i", "tag_n")]
            for form in forms:
                acc.evaluations += 1
                try:
                    f = self.root(form)
                except Exception as e:
                    self.viol("construct:%s:raises" % form[0].replace("_", "-"), form, (), "a formula",
                              "%s: %s" % (type(e).__name__, e))
                    return
                if how == "dict" and [(id(a), c) for a, c in self._dict.items()] != self._dict_snap:
                    self.viol("construct:%s:mapping-argument-changed" % form[0].replace("_", "-"), form, (),
                              "the caller's mapping as it was passed in: %r" % (self._dict_snap,), repr(self._dict))
                    return
                rule = ("default-density:" + ("one-atom" if len(R.nonzero(comp0)) == 1 else "several-atoms")
                        if form[0] == "none" else "construct:" + form[0].replace("_", "-"))
                rho = self.root_rho(form)
                if not self.check_state(f, comp0, rho, rule, form, (), rho_judged=(one or form[0] != "none"),
                                        ratio_dependent_density=form[0] in ("kw_n", "attr_n", "tag_n")):
                    return
                if form[0] == "none" and not one:
                    try:
                        unknown = f.density is None
                    except Exception:
                        unknown = False
                    if not unknown:
                        acc.count("roots_of_several_atoms_with_a_default_density(not judged)")
                        continue
                acc.count("root_forms")
                acc.outcome("root:" + form[0])
                if how == "str":
                    roots.append((form, State(f, comp0, rho, (), False)))
        # step 4b: the composition (or a multiple of it) written in every other structural spelling
        for form in self.spelled_forms():
            self.spelled_unit(form)
        # lattice grid (independent of the state by the statement; run on the plain root)
        self.check_lattice(f0, base)          # a wrong cell volume does not break a density state
        # step 5: breadth-first exploration
        frontier = []
        for form, st in roots:
            k = self.canon(st)
            if k in self.seen:
                acc.count("merged_roots")
                continue
            self.seen.add(k)
            acc.states += 1
            self.check_packing(st, form, True)    # a wrong volume estimate does not break a density state
            frontier.append((form, st))
        for level in range(1, depth + 1):
            last = level == depth
            nxt = []
            for form, st in frontier:
                skip = set()
                for ev in self.events(st, last):
                    if ev[0] in DERIVED and ev[-1] and ev[:-1] in skip:
                        continue                    # the unread history already violates
                    v0 = acc.vcount
                    new = self.step(st, ev, form, last)
                    if new is None:
                        if ev[0] in DERIVED and not ev[-1] and acc.vcount > v0:
                            skip.add(ev[:-1])
                        continue
                    k = self.canon(new)
                    if k in self.seen:
                        acc.count("merged_arrivals")
                        continue
                    self.seen.add(k)
                    acc.states += 1
                    if new.nontrivial:
                        acc.nontrivial += 1
                    if not new.vol_done:
                        self.check_packing(new, form, not last)
                    if acc.states % 30011 == 0:
                        acc.sample(self.case(form, new.hist))
                    if not last:
                        nxt.append((form, new))
            frontier = nxt
        acc.info["max_depth_completed"] = max(acc.info.get("max_depth_completed", 0), depth)


def _shard(args):
    tier, entries, depth = args
    acc = Acc()
    g = Graph(env(), [tuple(e) for e in entries], acc, tier)
    g.run(depth)
    acc.count("compositions")
    acc.sample(dict(comp=g.text, depth=depth, states=acc.states, transitions=acc.transitions))
    return acc


def run(ctx):
    quick = ctx.quick
    jobs = []
    deep = set(comp_text(_parse_comp(m)) for m in DEEP) | set(TOKS)
    for e in compositions(ctx.tier):
        depth = 2 if quick or comp_text(e) not in deep else 3
        jobs.append((ctx.tier, [list(x) for x in e], depth))
    jobs = rotate(jobs, ctx.seed)
    jobs.sort(key=lambda j: (-j[2], -len(j[1])))          # heavy graphs first
    ctx.pmap(_shard, jobs)
    ctx.acc.traces = ctx.acc.transitions


def replay(ctx, case, signature=None):
    E = env()
    entries = [(t, c) for t, c in case["comp"]]
    g = Graph(E, entries, ctx.acc, "quick")
    form = case["root"]
    if form[0].startswith("spell:"):
        g.spelled_unit(form, history=case["history"])
        return
    comp0 = dict(g.comp0)
    f = g.root(form)
    rule = {"none": "default-density:" + ("one-atom" if len(R.nonzero(comp0)) == 1 else "several-atoms"),
            "attr_d": "set-density", "attr_n": "set-natural-density"}.get(
                form[0], "construct:" + form[0].replace("_", "-"))
    rho = g.root_rho(form)
    one = len(R.nonzero(comp0)) == 1
    if not g.check_state(f, comp0, rho, rule, form, (), rho_judged=(one or form[0] != "none"),
                         ratio_dependent_density=form[0] in ("kw_n", "attr_n", "tag_n")):
        return
    if form[0] == "none" and not one and f.density is not None:
        return                      # not the 'unknown density' state: nothing to replay
    st = State(f, comp0, rho, (), False)
    if "lattice" in case:
        g.check_lattice(f, form)
        return
    for ev in case["history"]:
        st = g.step(st, tuple(ev), form)
        if st is None:
            return
    g.check_packing(st, form, True)
