"""C14 - neutron activation equals the exact solution of the documented capture/decay chains
(complete row sweep x environment grid; DESIGN section 4, C14 and section 7).

State  = (reaction row of activation.dat, fluence, Cd ratio, fast ratio, exposure, mass, rest time).
         ALL 513 rows are visited; the environment grid sits on the code-visible break points
         (Cd ratio {0, 0.5, 0.999999, 1, 1.000001, 70} and fast ratio {0, 0.02, 0.5, 0.999999, 1, 1.000001, 50}:
         zero, inside (0, 1), just below / at / just above 1, a usual value - combined cross-shaped: every fast
         ratio at Cd {0, 1, 70}, every Cd ratio at fast {0, 50}; and - per single-capture row - two extra
         exposures that bracket the documented small-argument threshold max(U, V) = 1e-10).
Oracle = (i) point: activation.activity(isotope, mass, env, exposure, rests)[row][rest] against the
         80-digit decimal solution of the row's chain (mc.ref.activation), relative 1e-9,
         values below 1e-290 compared as zero; (ii) invariants: no exception, finite, >= 0, fast rows
         present iff fast_ratio != 0; (iii) edges: mass x k => x k, rest t => x 2^(-t/T_half),
         exposure t1 < t2 => A(t2) >= A(t1) exp(-a (t2 - t1)) (b rows: A(t2) >= A(t1));
         (iv) Sample.calculate_activation of a natural element / compound == the isotope route with
         mass x mass fraction x abundance/100 (default, NIST and IAEA abundance).
         (v) histories of caller-owned objects: ONE ActivationEnvironment is used, handed on (the same
         object / copy.copy / copy.deepcopy), updated in place by the caller and used again - every path of
         environment settings up to the depth bound x used-before-hand-over {yes, no} x hand-over, for every
         isotope of the table; one Sample recalculated in another environment with other rest times; one
         environment shared by two Samples; one Formula object handed to two Samples.  The last result must
         equal the one of fresh objects built with the final values (a second route through the same
         arithmetic, 1e-12), and the arguments (environment attributes, rest-time list, Formula) come back
         unaltered.  A deviation is named after the attribute whose OLD value explains it
         ("reused-environment-uses-stale-Cd_ratio");
         (vi) the sample alphabet contains ions: for every element with activation data the ion of the natural
         element and the ion of its lightest activating isotope, and compounds that hold one element in two
         charge states / as ion and neutral atom / as isotope ion and natural ion.  The charge does not change
         the nucleus; the ion's own mass enters the mass fraction.  An exception is attributed to the ions
         ("sample-with-ion-of-natural-element-raises") only if the same material without charges computes.
         (vii) rest-time list SHAPES: per isotope an alphabet of rest times {0, 1 h, a time at which the isotope's
         shortest-lived product has decayed by exp(-1200) - its activity is exactly 0.0 there -, the end 1e5 h of the
         range (thorough: also 24 h)}; EVERY sequence over that alphabet up to the length bound (every order, every
         repetition, 0 in every position, times after a time beyond underflow) is executed through activity(), and
         through Sample.calculate_activation for every sample; every entry must equal the entry of the call with
         that single rest time (the same arithmetic, 1e-12), the single-time values obey the rest edge, the row
         sweep's own list is one of the lists, and the caller's list comes back unaltered.  A deviation is named
         after the input class of the entry ("...:after-a-time-at-which-the-product-has-decayed-to-zero",
         "...:list-not-ascending", "...:repeated-time", "...:ascending-list").
Every deviation is classified by CAUSE with the reference's condition number kappa of the documented
closed form: |error| <= 64 eps kappa => "<family>-cancellation" ("2n-capture-rate-cancellation" when
only the spreadsheet's (c + lamP) - lamP subtraction explains it), otherwise "<family>-value-wrong"
(or "act-small-argument-branch-wrong" inside the documented small-argument region, where the
library documents a series precisely so that cancellation is NOT the answer); negative results and
exceptions carry their own signatures.  Edge relations over exposure are evaluated only between
points that agree with the reference (nothing is explored beyond a violating state)."""
import copy
import math
import decimal
import itertools
from decimal import Decimal
from ..common import Acc, load_pt, chunks, rotate, MachineryError
from ..ref import activation as RA

EPS = 2.0 ** -52
REL = 1e-9
TINY = 1e-290
KFACTOR = 64.0

# Break points of the two ratios (the statement: epithermal capture is omitted when the cadmium ratio is below 1,
# fast reactions only when the fast ratio is 0): 0, inside (0, 1), just below 1, 1, just above 1, a usual value.
CD = (0.0, 0.5, 0.999999, 1.0, 1.000001, 70.0)
FAST = (0.0, 0.02, 0.5, 0.999999, 1.0, 1.000001, 50.0)
CD_CORE = (0.0, 1.0, 70.0)
FAST_CORE = (0.0, 50.0)
# cross-shaped: every fast ratio at the three core Cd ratios, every Cd ratio at the two core fast ratios
RATIOS = tuple((cd, fr) for cd in CD for fr in FAST if cd in CD_CORE or fr in FAST_CORE)
MASS = (1.0, 1e-6, 1e3)          # the first entry is the base of the mass edges
REST = (0.0, 1.0, 24.0, 1e5)
GRID = dict(
    # quick is the design's THOROUGH grid (it costs seconds); it contains the design's quick grid
    quick=dict(fluence=(1e2, 1e5, 1e8, 1e10, 1e12, 1e14, 1e16), exposure=(1e-3, 0.1, 1.0, 10.0, 100.0, 1e4)),
    # a superset of the design's thorough grid (7 fluences x 6 exposures): every decade
    thorough=dict(fluence=tuple(float("1e%d" % k) for k in range(2, 17)),
                  exposure=(1e-3, 1e-2, 0.1, 1.0, 10.0, 100.0, 1e3, 1e4)),
)
SAMPLE_GRID = dict(
    quick=dict(fluence=(1e5, 1e12), exposure=(1.0, 1e4), cd=(0.0, 70.0), fast=(0.0, 0.5, 50.0)),
    thorough=dict(fluence=(1e2, 1e5, 1e8, 1e12, 1e16), exposure=(1e-3, 1.0, 10.0, 1e4), cd=(0.0, 0.5, 1.0, 70.0),
                  fast=(0.0, 0.5, 1.0, 50.0)),
)
SAMPLE_MASS = 2.5
# compound samples: formula string, [(symbol, mass number or None, count)]
COMPOUNDS = (
    ("Co30Fe70", (("Co", None, 30), ("Fe", None, 70))),
    ("H[2]2O", (("H", 2, 2), ("O", None, 1))),
    ("CaCO3", (("Ca", None, 1), ("C", None, 1), ("O", None, 3))),
    # the same isotope named explicitly AND contained in the natural element: contributions must add
    ("Cu[65]Cu", (("Cu", 65, 1), ("Cu", None, 1))),
    ("CuCu[63]0.5", (("Cu", None, 1), ("Cu", 63, 0.5))),
    ("Li[6]0.3Li0.7F", (("Li", 6, 0.3), ("Li", None, 0.7), ("F", None, 1))),
    ("HDO", (("H", None, 1), ("H", 2, 1), ("O", None, 1))),
    ("Co[59]Co", (("Co", 59, 1), ("Co", None, 1))),
    # ions (4th entry = charge).  The charge does not change the nucleus: an ion of a natural element
    # contributes the abundance-weighted sum of the element's isotopes, an ion of an isotope that isotope;
    # the same element in two charge states / as ion and neutral / as isotope ion and natural ion must add
    ("Na{+}Cl{-}", (("Na", None, 1, 1), ("Cl", None, 1, -1))),
    ("Co[59]{2+}O{2-}", (("Co", 59, 1, 2), ("O", None, 1, -2))),
    ("Fe{2+}Fe{3+}2O{2-}4", (("Fe", None, 1, 2), ("Fe", None, 2, 3), ("O", None, 4, -2))),
    ("Cu{+}Cu", (("Cu", None, 1, 1), ("Cu", None, 1))),
    ("Co[59]{2+}Co{3+}", (("Co", 59, 1, 2), ("Co", None, 1, 3))),
    ("Cu[63]{+}Cu[63]{2+}Cu[65]", (("Cu", 63, 1, 1), ("Cu", 63, 1, 2), ("Cu", 65, 1))),
    ("D{+}2O{2-}", (("H", 2, 2, 1), ("O", None, 1, -2))),
)
# histories of ONE environment object (reused configuration objects): settings = fluence x Cd ratio x fast ratio
ENV_ATTRS = ("fluence", "Cd_ratio", "fast_ratio")
HIST = dict(
    quick=dict(fluence=(1e5, 1e12), depth=2),
    thorough=dict(fluence=(1e5, 1e12), depth=3),
)
HIST_CD = (0.0, 1.0, 70.0)
HIST_FAST = (0.0, 0.5, 50.0)        # suppressed, more fast than thermal neutrons, a usual beam
HIST_EXPOSURE = 1.0
HIST_MASS = MASS[0]
HIST_RESTS = (0.0, 24.0)
TRANSFERS = ("same", "copy", "deepcopy")
# histories of Sample / environment objects at the level of Sample.calculate_activation
SAMPLE_HIST = dict(
    quick=dict(fluence=1e12, cd=(0.0, 70.0), fast=(0.0, 0.5, 50.0)),
    thorough=dict(fluence=1e12, cd=HIST_CD, fast=HIST_FAST),
)
SAME = 1e-12        # two routes through the same arithmetic: equal up to summation order
# rest-time list shapes: every sequence over a small alphabet of times.  None = the per-isotope time at which the
# shortest-lived product has decayed by exp(-SHAPE_UNDERFLOW) = 0.0 exactly (SHAPE_NO_UNDERFLOW where that lies
# beyond the quantifier's range of rest times [0, 1e5] h)
SHAPE = dict(
    quick=dict(times=(0.0, 1.0, None, 1e5), maxlen=4, sample_maxlen=3),
    thorough=dict(times=(0.0, 1.0, None, 24.0, 1e5), maxlen=5, sample_maxlen=4),
)
SHAPE_UNDERFLOW = 1200
SHAPE_NO_UNDERFLOW = 360.0
SHAPE_END = 1e5
SHAPE_ENVS = ((1e12, 70.0, 50.0), (1e5, 0.0, 0.0))      # points of the row sweep's grid (both tiers)
SHAPE_EXPOSURES = (1.0, 100.0)

META = dict(
    level="model_checking", engine="E1",
    technique="complete sweep of an embedded table x environment grid against an exact reference model",
    rule=("every one of the 513 reaction rows of activation.dat x every point of the environment grid "
          "(fluence x exposure x (Cd ratio, fast ratio) x mass x rest time, plus per-row exposures bracketing "
          "the 1e-10 small-argument threshold) is executed through activation.activity() on the real isotope "
          "and compared with the 80-digit solution of the row's chain; a point is non-trivial when the row is "
          "expected in the result and its exact activity is above 1e-290 uCi; every natural element with "
          "activation data, its ions, and compounds (isotope + natural element, several charge states of one "
          "element) go through Sample.calculate_activation against the isotope route; every history of one "
          "environment object (path of settings x used-before-hand-over x same object / copy / deepcopy) per "
          "isotope and every ordered pair of settings per sample (environment shared by two Samples, one Sample "
          "recalculated) is compared with fresh objects - non-trivial when the last change of settings changes "
          "the result; every rest-time list over a per-isotope alphabet of times (0, 1 h, a time beyond the underflow "
          "of the shortest-lived product, 1e5 h) up to the length bound - every order, repetition and position of 0 - "
          "is compared entry by entry with the single-time calls, through activity() per isotope and through "
          "Sample.calculate_activation per sample; a list is non-trivial when it is not strictly ascending"),
    bound=dict(
        quick="513 rows x 13608 environments (7 fluences x 6 exposures x 27 ratio pairs x 3 masses x 4 rest times; "
              "ratio pairs: fast ratio {0, 0.02, 0.5, 0.999999, 1, 1.000001, 50} at Cd {0, 1, 70} and Cd ratio "
              "{0, 0.5, 0.999999, 1, 1.000001, 70} at fast {0, 50}) + threshold exposures; (82 natural elements + 15 "
              "compounds, 7 of them with ions, + the natural-element ion and one isotope ion of each of the 80 elements "
              "that have charge states) x 24 environments (2 fluences x 2 exposures x Cd {0,70} x fast {0,0.5,50}) x 3 "
              "abundance modes (default, NIST, IAEA); per isotope (224) all 1836 histories of one environment object: "
              "ordered pairs of 18 settings (fluence {1e5,1e12} x Cd {0,1,70} x fast {0,0.5,50}) x "
              "used-before-hand-over {yes,no} x {same object, copy, deepcopy}; per sample all ordered pairs of 6 "
              "settings x {environment shared by two Samples, Sample recalculated} + a reused Formula object; "
              "rest-time lists: per isotope (224) all 340 sequences of length 1..4 over 4 times {0, 1, underflow time "
              "of the shortest-lived product (168 isotopes; else 360), 1e5} h + the sweep's list x 2 environments x 2 "
              "exposures through activity(); per sample (97) all sequences of length 1..3 + all 24 permutations of the 4 "
              "times x 2 environments through Sample.calculate_activation",
        thorough="513 rows x 38880 environments (15 fluences 1e2..1e16 x 8 exposures 1e-3..1e4 x 27 ratio pairs x 3 x 4; "
                 "contains the quick grid) + threshold exposures; the same samples x 320 environments (5 fluences x 4 "
                 "exposures x Cd {0,0.5,1,70} x fast {0,0.5,1,50}) x 3 abundance modes; per isotope the quick histories + "
                 "all 10404 paths of three settings (used, same object / copy); per sample all ordered pairs of 9 settings; "
                 "rest-time lists: all 3905 sequences of length 1..5 over 5 times {0, 1, underflow time, 24, 1e5} h per "
                 "isotope, all sequences of length 1..4 + all 120 permutations per sample"),
    assumptions=[
        "the documented chain of a row is the one derived in mc/ref/activation.py from the activation.py "
        "docstring and the spreadsheet column comments (cross sections, fluxes and half-lives as tabulated)",
        "atoms per gram = 1/A with A the mass number and 1.6278e19 = N_A/(3.7e4 Bq/uCi) are the documented "
        "spreadsheet constants (not taken from periodictable.constants, which the activation module does not use)",
        "the natural abundance of an isotope is whatever the library serves (its correctness is C06); the "
        "IAEA abundance is the Abund column read by the independent reader",
        "nothing is claimed for real-valued arguments off the grid; the D/T alias isotopes (no activation record of "
        "their own) are outside the alphabet",
        "a cadmium ratio below 1 (0, 0.5, 0.999999) omits epithermal capture, as the statement says; a fast ratio "
        "is a thermal/fast ratio and every positive value, also below 1 (more fast than thermal neutrons), gives the "
        "fast flux fluence/fast_ratio; fast rows are omitted for fast ratio 0 only",
        "element masses used for compound mass fractions are read from the library (C06)",
        "an ion activates like the neutral atom (the charge does not change the nucleus); its mass fraction in a "
        "compound uses the ion's own mass as the library serves it",
        "the documented public attributes of an ActivationEnvironment are fluence, Cd_ratio and fast_ratio; a "
        "caller may assign them at any time and may copy an environment with the copy module; private "
        "attributes an implementation keeps on the object are not looked at",
        "an entry of a result belongs to its own rest time: it does not depend on the other entries of the rest-time "
        "list, their order or their number (the statement quantifies over 'every rest time'); rest times are handed to "
        "activity() as a list and to Sample.calculate_activation as a tuple (its documented default is a tuple); other "
        "containers (numpy arrays, generators) are outside the alphabet",
        "results of fresh and of reused objects run through the same arithmetic and are compared to 1e-12 "
        "relative; histories whose fresh route raises or is not finite are not judged (the row sweep reports them)",
    ],
    level_text=("bounded-exhaustive execution of the real activation code: every table row at every grid point "
                "agrees with an independent exact chain solution; no claim between grid points"),
    level_note=("trusted base: mc/ref/activation.py (chain equations derived by hand from the documentation, "
                "80-digit decimal arithmetic of the standard library) and its reader of activation.dat"),
)


# --------------------------------------------------------------------------------------- library side
class Lib(object):
    """Everything of the library a worker needs (created after the fork)."""
    def __init__(self):
        self.pt = load_pt()
        from periodictable import activation
        self.act = activation
        self.rows, self.per_iso, self.report, self.col = RA.read_rows()

    def isotope(self, Z, A):
        return self.pt.elements[Z][A]

    def env(self, fluence, cd, fr):
        return self.act.ActivationEnvironment(fluence=fluence, Cd_ratio=cd, fast_ratio=fr)


_LIB = None


def lib():
    global _LIB
    if _LIB is None:
        _LIB = Lib()
    return _LIB


def iso_expr(Z, A):
    return "pt.elements[%d][%d]" % (Z, A)


def by_position(res, lib_rows):
    """{pos: values} of an activity() result, and the number of keys that belong to no record.

    Keys are the isotope's own records (that is how Sample.show_table reads them); should a
    refactoring hand out copies, a key is recognised by carrying the same attributes as a record."""
    out, used = {}, set()
    for pos, ai in enumerate(lib_rows):
        if ai in res:
            out[pos] = res[ai]
            used.add(id(ai))
    extra = 0
    for k, v in res.items():
        if id(k) in used:
            continue
        tag = getattr(k, "__dict__", None)
        for pos, ai in enumerate(lib_rows):
            if pos not in out and tag and getattr(ai, "__dict__", None) == tag:
                out[pos] = v
                break
        else:
            extra += 1
    return out, extra


def call_rows(L, iso, lib_rows, mass, env, exposure, rests, only=None):
    """activity() for one isotope -> ({pos: list of values}, {pos: exception}, whole_exception).

    The whole record list is evaluated in one call (the real route).  If that raises, the rows are
    evaluated one at a time (the isotope temporarily carries a one-record list) to attribute the
    failure to its row(s) and still check the others."""
    try:
        res = L.act.activity(iso, mass, env, exposure, list(rests))
        out, extra = by_position(res, lib_rows)
        if only is not None:
            out = dict((pos, v) for pos, v in out.items() if pos in only)
        return out, {}, None, extra
    except Exception as e:          # noqa - any exception is an observation here
        whole = e
    out, bad = {}, {}
    saved = iso.neutron_activation
    try:
        for pos, ai in enumerate(lib_rows):
            if only is not None and pos not in only:
                continue
            iso.neutron_activation = [ai]
            try:
                res = L.act.activity(iso, mass, env, exposure, list(rests))
                one, _ = by_position(res, [ai])
                if 0 in one:
                    out[pos] = one[0]
            except Exception as e:  # noqa
                bad[pos] = e
    finally:
        iso.neutron_activation = saved
    return out, bad, whole, 0


def exc_text(e):
    return "EXC:%s:%s" % (type(e).__name__, str(e)[:120])


# --------------------------------------------------------------------------------------- standalone
def standalone_point(case, expected):
    return (
        "import periodictable as pt\nfrom periodictable import activation\n"
        "env = activation.ActivationEnvironment(fluence=%(fluence)r, Cd_ratio=%(Cd_ratio)r, fast_ratio=%(fast_ratio)r)\n"
        "iso = %(iso)s   # %(isotope)s\n"
        "res = activation.activity(iso, %(mass)r, env, %(exposure)r, [%(rest)r])\n"
        "ai = iso.neutron_activation[%(pos)d]   # %(isotope)s -> %(daughter)s (%(reaction)s)\n"
        "got = res[ai][0]\n"
        "exact = %(exact)s   # 80-digit solution of the documented chain, uCi\n"
        "assert got >= 0 and abs(got - exact) <= 1e-9*exact + 1e-290, (got, exact)\n"
    ) % dict(case, iso=iso_expr(case["Z"], case["A"]), exact=expected)


# --------------------------------------------------------------------------------------- point oracle
def classify(row, sol, got, exact):
    """Signature of a deviation by cause (see module docstring)."""
    fam = row.family
    err = abs(Decimal(got) - exact)
    explained = err <= Decimal(KFACTOR * EPS) * sol.kappa * abs(exact) + Decimal(TINY)
    by_sum = err <= Decimal(KFACTOR * EPS) * sol.kappa_sum * abs(exact) + Decimal(TINY)
    small = fam == "act" and sol.U is not None and sol.U < Decimal("1e-10") and sol.V < Decimal("1e-10")
    neg = got < 0
    if small:
        return "act-small-argument-branch-wrong" + ("-negative" if neg else "")
    if by_sum:
        return "%s-cancellation%s" % (fam, "-negative" if neg else "")
    if explained:       # only '2n': the capture rate of the intermediate obtained as (c + lamP) - lamP
        return "2n-capture-rate-cancellation%s" % ("-negative" if neg else "")
    if neg:
        return "%s-negative-activity" % fam
    return "%s-value-wrong%s" % (fam, "-fast" if row.fast else "")


def make_case(row, fluence, cd, fr, exposure, mass, rest, kind="point"):
    return dict(kind=kind, Z=row.Z, A=row.A, pos=row.pos, index=row.index, isotope=row.isotope,
                daughter=row.daughter, reaction=row.reaction, fluence=fluence, Cd_ratio=cd,
                fast_ratio=fr, exposure=exposure, mass=mass, rest=rest)


def fnum(v):
    try:
        return float(v)
    except Exception:
        return None


def threshold_exposures(rows, envr, lo, hi):
    """Exposures bracketing max(U, V) = 1e-10 of each single-capture row, inside [lo, hi]."""
    out = set()
    for row in rows:
        if row.family != "act" or (row.fast and envr.fast_ratio == 0):
            continue
        R, a, c, lam, lamP = RA.rates(row, envr)
        rate = max(a, lam + c)
        if rate <= 0:
            continue
        for f in (Decimal("0.5"), Decimal(2)):
            t = float("%.3g" % float(Decimal("1e-10") / rate * f))
            if lo <= t <= hi:
                out.add(t)
    return sorted(out)


def sweep_isotope(acc, L, key, fluences, exposures, only=None, masses=MASS, rests=REST, ratios=RATIOS,
                  thresholds=True, exposure_edges=True):
    """All grid points of all rows of one isotope."""
    Z, A = key
    rows = L.per_iso[key]
    iso = L.isotope(Z, A)
    lib_rows = getattr(iso, "neutron_activation", None)
    want = [(r.daughter, r.reaction) for r in rows]
    have = None if lib_rows is None else [(getattr(ai, "daughter", None), getattr(ai, "reaction", None))
                                          for ai in lib_rows]
    if have != want:
        acc.violation("rows-differ-from-table", dict(kind="table", Z=Z, A=A), expected=want, observed=have,
                      standalone="import periodictable as pt\nprint([(a.daughter, a.reaction) for a in "
                                 "%s.neutron_activation])\n" % iso_expr(Z, A))
        return
    restf = dict((r.pos, [RA.rest_factor(r, t) for t in rests]) for r in rows)
    mdec = [RA.dec(m) for m in masses]
    cache = {}
    for fluence in fluences:
        if True:
            for cd, fr in ratios:
                env = L.env(fluence, cd, fr)
                envr = RA.Env(fluence, cd, fr)
                exps = list(exposures)
                if thresholds:
                    exps += [t for t in threshold_exposures(rows, envr, min(exposures), max(exposures))
                             if t not in exps]
                    acc.count("threshold_exposure_calls", len(exps) - len(exposures))
                ok_at = {}        # (pos, exposure) -> library value at mass[0], rest[0] if the point passed
                for exposure in exps:
                    sols = {}
                    for r in rows:
                        if only is not None and r.pos not in only:
                            continue
                        if r.fast and fr == 0:
                            continue
                        # the reference depends on the Cd ratio only through its epithermal factor
                        ck = (r.pos, fluence, envr.epi, exposure) if not r.fast else (r.pos, fluence, envr.epi, exposure, fr)
                        s = cache.get(ck)
                        if s is None:
                            s = cache[ck] = RA.solve(r, envr, exposure)
                            acc.count("reference_solutions")
                        sols[r.pos] = s
                    base = {}
                    for mi, mass in enumerate(masses):
                        out, bad, whole, extra = call_rows(L, iso, lib_rows, mass, env, exposure, rests, only)
                        acc.evaluations += 1
                        if extra:
                            acc.violation("result-has-unknown-rows", make_case(rows[0], fluence, cd, fr, exposure,
                                          mass, 0.0), expected="only records of the isotope", observed="%d more" % extra)
                        if whole is not None and not bad:
                            acc.violation("exception-unattributed-%s" % type(whole).__name__,
                                          make_case(rows[0], fluence, cd, fr, exposure, mass, 0.0),
                                          expected="activities", observed=exc_text(whole))
                        for r in rows:
                            if only is not None and r.pos not in only:
                                continue
                            check_row(acc, r, sols.get(r.pos), out.get(r.pos), bad.get(r.pos), restf[r.pos],
                                      fluence, cd, fr, exposure, mass, mdec[mi], rests, mi, base, ok_at)
                if exposure_edges:
                    exposure_edges_check(acc, rows, only, ok_at, cache, fluence, cd, fr, sorted(exposures), envr.epi)


def check_row(acc, r, sol, vals, exc, restf, fluence, cd, fr, exposure, mass, mdec, rests, mi, base, ok_at):
    fam = r.family
    npts = len(rests)
    acc.states += npts
    absent_expected = r.fast and fr == 0
    if exc is not None:
        small = sol is not None and sol.U is not None and sol.U < Decimal("1e-10") and sol.V < Decimal("1e-10")
        sig = "%s%s-exception-%s" % (fam, "-small-argument" if small else "", type(exc).__name__)
        case = make_case(r, fluence, cd, fr, exposure, mass, rests[0])
        exact = None if sol is None else RA.to_float(sol.per_gram * mdec)
        acc.violation(sig, case, expected="activity %r uCi (no exception)" % exact, observed=exc_text(exc),
                      standalone=standalone_point(case, repr(exact)))
        acc.outcome("%s:exception" % fam, npts)
        return
    if absent_expected:
        if vals is not None:
            case = make_case(r, fluence, cd, fr, exposure, mass, rests[0])
            acc.violation("fast-row-present-with-fast-ratio-0", case, expected="row omitted",
                          observed=repr(vals)[:200],
                          standalone=standalone_point(case, "0.0").replace("got = res[ai][0]",
                                                                           "assert ai not in res; got = 0.0"))
        acc.outcome("fast-row:omitted", npts)
        acc.traces += npts
        return
    if vals is None:
        case = make_case(r, fluence, cd, fr, exposure, mass, rests[0])
        acc.violation("row-missing-%s%s" % (fam, "-fast" if r.fast else ""), case, expected="row present",
                      observed="absent", standalone=standalone_point(case, "0.0"))
        return
    if len(vals) != npts:
        acc.violation("wrong-number-of-rest-times", make_case(r, fluence, cd, fr, exposure, mass, rests[0]),
                      expected=npts, observed=len(vals))
        return
    base_m = sol.per_gram * mdec
    got0 = fnum(vals[0])
    point_ok = True
    for j in range(npts):
        got = fnum(vals[j])
        exact = base_m * restf[j]
        ex_f = RA.to_float(exact)
        acc.traces += 1
        if ex_f > TINY:
            acc.nontrivial += 1
        if got is None or math.isnan(got) or math.isinf(got):
            case = make_case(r, fluence, cd, fr, exposure, mass, rests[j])
            acc.violation("%s-not-finite" % fam, case, expected=repr(ex_f), observed=repr(vals[j]),
                          standalone=standalone_point(case, repr(ex_f)))
            acc.outcome("%s:not-finite" % fam)
            point_ok = False
            continue
        if got >= 0 and abs(got - ex_f) <= 1e-10 * ex_f + 0.5 * TINY:
            acc.outcome("%s:%s" % (fam, "equal" if ex_f > TINY else "zero"))
        elif got >= 0 and abs(Decimal(got) - exact) <= Decimal(REL) * exact + Decimal(TINY):
            acc.outcome("%s:equal" % fam)
        else:
            sig = classify(r, sol, got, exact)
            case = make_case(r, fluence, cd, fr, exposure, mass, rests[j])
            rel = float(abs(Decimal(got) - exact) / exact) if exact > 0 else float("inf")
            acc.violation(sig, case, expected=repr(ex_f), observed=repr(got),
                          standalone=standalone_point(case, repr(ex_f)),
                          detail=dict(kappa=float(sol.kappa), kappa_sum=float(sol.kappa_sum), relative_error=rel,
                                      explained_bound=KFACTOR * EPS * float(sol.kappa),
                                      U=None if sol.U is None else float(sol.U),
                                      V=None if sol.V is None else float(sol.V)))
            acc.outcome("%s:%s" % (fam, sig))
            k = "max_unexplained_ratio_" if "cancellation" not in sig else "max_explained_ratio_"
            ratio = rel / (EPS * float(sol.kappa)) if sol.kappa < Decimal("1e300") else 0.0
            acc.info[k + fam] = max(acc.info.get(k + fam, 0.0), min(ratio, 1e300))
            point_ok = False
        # edge: rest time t => x 2^(-t/T_half), relative to the library's own end-of-irradiation value
        if j > 0 and got0 is not None and math.isfinite(got0):
            acc.transitions += 1
            want = got0 * RA.to_float(restf[j])
            if abs(got - want) > REL * abs(want) + TINY:
                case = make_case(r, fluence, cd, fr, exposure, mass, rests[j], kind="rest-edge")
                acc.violation("rest-decay-%s" % fam, case, expected="A(0)*2^(-t/T) = %r" % want, observed=repr(got),
                              standalone=(
                                  "import periodictable as pt\nfrom periodictable import activation\n"
                                  "env = activation.ActivationEnvironment(fluence=%r, Cd_ratio=%r, fast_ratio=%r)\n"
                                  "iso = %s\nai = iso.neutron_activation[%d]\n"
                                  "a0, a1 = activation.activity(iso, %r, env, %r, [0, %r])[ai]\n"
                                  "assert abs(a1 - a0*2**(-%r/ai.Thalf_hrs)) <= 1e-9*a0, (a0, a1)\n"
                                  % (fluence, cd, fr, iso_expr(r.Z, r.A), r.pos, mass, exposure, rests[j], rests[j])))
        # edge: mass x k => x k, relative to the library's own value at the base mass
        if mi == 0:
            base[(r.pos, j)] = got
        else:
            b = base.get((r.pos, j))
            if b is not None and math.isfinite(b):
                acc.transitions += 1
                want = b * (mass / MASS[0])
                if abs(got - want) > 1e-12 * abs(want) + TINY:
                    case = make_case(r, fluence, cd, fr, exposure, mass, rests[j], kind="mass-edge")
                    acc.violation("mass-proportionality-%s" % fam, case, expected="%r x A(mass %r) = %r"
                                  % (mass / MASS[0], MASS[0], want), observed=repr(got),
                                  standalone=(
                                      "import periodictable as pt\nfrom periodictable import activation\n"
                                      "env = activation.ActivationEnvironment(fluence=%r, Cd_ratio=%r, fast_ratio=%r)\n"
                                      "iso = %s\nai = iso.neutron_activation[%d]\n"
                                      "a1 = activation.activity(iso, %r, env, %r, [%r])[ai][0]\n"
                                      "ak = activation.activity(iso, %r, env, %r, [%r])[ai][0]\n"
                                      "assert abs(ak - %r*a1) <= 1e-12*abs(ak), (a1, ak)\n"
                                      % (fluence, cd, fr, iso_expr(r.Z, r.A), r.pos, MASS[0], exposure, rests[j],
                                         mass, exposure, rests[j], mass / MASS[0])))
    if mi == 0 and point_ok and got0 is not None:
        ok_at[(r.pos, exposure)] = got0


def exposure_edges_check(acc, rows, only, ok_at, cache, fluence, cd, fr, exposures, epi):
    """t1 < t2 => A(t2) >= A(t1) exp(-a (t2 - t1)); only between points that agree with the reference."""
    for r in rows:
        if (only is not None and r.pos not in only) or (r.fast and fr == 0):
            continue
        fam = r.family
        for i1 in range(len(exposures)):
            for i2 in range(i1 + 1, len(exposures)):
                t1, t2 = exposures[i1], exposures[i2]
                if (r.pos, t1) not in ok_at or (r.pos, t2) not in ok_at:
                    acc.count("exposure_edges_skipped_endpoint_deviates")
                    continue
                ck1 = (r.pos, fluence, epi, t1) if not r.fast else (r.pos, fluence, epi, t1, fr)
                ck2 = (r.pos, fluence, epi, t2) if not r.fast else (r.pos, fluence, epi, t2, fr)
                s1, s2 = cache[ck1], cache[ck2]
                rate = s1.a if fam != "b" else Decimal(0)      # 'b' has no burn-up: monotone growth
                dep = RA._exp(-rate * (RA.dec(t2) - RA.dec(t1)))
                if s2.per_gram < s1.per_gram * dep * (1 - Decimal("1e-40")):
                    if fam == "2n":
                        acc.count("exposure_edges_skipped_reference_2n")
                        continue
                    raise MachineryError("reference violates the depletion bound at row %d" % r.index)
                a1, a2 = ok_at[(r.pos, t1)], ok_at[(r.pos, t2)]
                acc.transitions += 1
                bound = a1 * RA.to_float(dep)
                if a2 < bound * (1 - 3 * REL) - TINY:
                    case = make_case(r, fluence, cd, fr, [t1, t2], MASS[0], 0.0, kind="exposure-edge")
                    acc.violation("exposure-depletion-bound-%s" % fam, case,
                                  expected="A(t2) >= A(t1)*exp(-a*(t2-t1)) = %r" % bound, observed=repr(a2),
                                  standalone=(
                                      "import periodictable as pt\nfrom periodictable import activation\n"
                                      "env = activation.ActivationEnvironment(fluence=%r, Cd_ratio=%r, fast_ratio=%r)\n"
                                      "iso = %s\nai = iso.neutron_activation[%d]\n"
                                      "a1 = activation.activity(iso, %r, env, %r, [0])[ai][0]\n"
                                      "a2 = activation.activity(iso, %r, env, %r, [0])[ai][0]\n"
                                      "assert a2 >= a1*%r*(1 - 3e-9), (a1, a2)   # target depletion factor\n"
                                      % (fluence, cd, fr, iso_expr(r.Z, r.A), r.pos, MASS[0], t1, MASS[0], t2,
                                         RA.to_float(dep))))


# --------------------------------------------------------------------------------------- samples
def abundance_weights(L, Z, which):
    """{A: percent} of the isotopes of element Z that contribute under the abundance function."""
    el = L.pt.elements[Z]
    out = {}
    for A in el.isotopes:
        if which != "IAEA":
            w = el[A].abundance
        else:
            rows = L.per_iso.get((Z, A))
            w = float(rows[0].abundance) if rows and rows[0].abundance is not None else 0.0
        if w:
            out[A] = w
    return out


def norm_spec(spec):
    """[(symbol, A or None, count, charge)]"""
    return [(s[0], s[1], s[2], (s[3] if len(s) > 3 else 0)) for s in spec]


def charge_text(q):
    return "" if not q else "{%s%s}" % ("" if abs(q) == 1 else abs(q), "+" if q > 0 else "-")


def spec_formula(spec, charges=True):
    """Formula string of a spec (with or without the charges)."""
    return "".join("%s%s%s%s" % (sym, "" if A is None else "[%d]" % A, charge_text(q) if charges else "",
                                 "" if n == 1 else "%.12g" % n) for sym, A, n, q in norm_spec(spec))


def sample_exception_signature(act, spec, env, exposure, rests, kw, exc):
    """Cause of an exception of Sample.calculate_activation by input class: if the sample contains ions and
    the same material with the charges removed computes, the ions are the cause."""
    ions = [(A is None) for _, A, _, q in norm_spec(spec) if q]
    if ions:
        try:
            s = act.Sample(spec_formula(spec, charges=False), SAMPLE_MASS)
            s.calculate_activation(env, exposure=exposure, rest_times=tuple(rests), **kw)
            neutral_ok = True
        except Exception:   # noqa
            neutral_ok = False
        if neutral_ok:
            return ("sample-with-ion-of-natural-element-raises" if any(ions)
                    else "sample-with-ion-of-isotope-raises")
    return "sample-exception-%s" % type(exc).__name__


def sample_check(acc, L, name, spec, fluence, cd, fr, exposure, which, mass=SAMPLE_MASS, rests=REST):
    """Sample(name).calculate_activation == isotope route with mass x fraction x abundance/100."""
    pt, act = L.pt, L.act
    env = L.env(fluence, cd, fr)
    case = dict(kind="sample", formula=name, spec=[list(s) for s in spec], fluence=fluence, Cd_ratio=cd,
                fast_ratio=fr, exposure=exposure, abundance=which, mass=mass)
    # "default": no abundance argument; the documentation says that is NIST2001_isotopic_abundance
    fn = act.IAEA1987_isotopic_abundance if which == "IAEA" else act.NIST2001_isotopic_abundance
    kw = {} if which == "default" else dict(abundance=fn)
    snippet = (
        "import periodictable as pt\nfrom periodictable import activation\n"
        "env = activation.ActivationEnvironment(fluence=%r, Cd_ratio=%r, fast_ratio=%r)\n"
        "s = activation.Sample(%r, %r)\n"
        "s.calculate_activation(env, exposure=%r, rest_times=%r%s)\n"
        "print(sorted((a.isotope, a.daughter, a.reaction, v) for a, v in s.activity.items()))\n"
        % (fluence, cd, fr, name, mass, exposure, list(rests),
           "" if which == "default" else ", abundance=activation.%s" % fn.__name__))
    # expected contributions through the isotope route (second route of the library)
    total = 0.0
    parts = []
    for sym, A, n, q in norm_spec(spec):
        el = getattr(pt.elements, sym)
        atom = el if A is None else el[A]
        if q:
            atom = atom.ion[q]      # the ion's own mass (electrons removed / added) enters the mass fraction
        parts.append((el, A, n * atom.mass))
        total += n * atom.mass
    expected = {}
    for el, A, m in parts:
        frac = m / total
        if A is not None:
            targets = [(A, mass * frac)]
        else:
            targets = [(Ai, mass * frac * w * 0.01) for Ai, w in sorted(abundance_weights(L, el.number, which).items())]
        for Ai, m_iso in targets:
            iso = el[Ai]
            lib_rows = getattr(iso, "neutron_activation", None)
            if lib_rows is None:
                continue
            try:
                res = act.activity(iso, m_iso, env, exposure, list(rests))
                acc.evaluations += 1
            except Exception:   # noqa - reported by the row sweep; the differential cannot be evaluated
                acc.count("sample_skipped_isotope_route_raises")
                return
            for pos, vals in by_position(res, lib_rows)[0].items():
                key3 = (el.number, Ai, pos)
                vals = [fnum(v) for v in vals]
                if key3 in expected:      # isotope reached twice (explicitly and through its element): sum
                    vals = [a + b for a, b in zip(expected[key3][1], vals)]
                expected[key3] = (lib_rows[pos], vals)
    acc.states += 1
    try:
        s = act.Sample(name, mass)
        s.calculate_activation(env, exposure=exposure, rest_times=tuple(rests), **kw)
        acc.evaluations += 1
    except Exception as e:  # noqa
        acc.violation(sample_exception_signature(act, spec, env, exposure, rests, kw, e), case,
                      expected="activities", observed=exc_text(e), standalone=snippet)
        acc.outcome("sample:raises")
        return
    got = dict(s.activity)
    acc.transitions += 1
    acc.traces += 1
    desc = lambda ai: "%s->%s(%s)" % (getattr(ai, "isotope", "?"), getattr(ai, "daughter", "?"),
                                      getattr(ai, "reaction", "?"))
    found, unknown = {}, []
    for k, v in got.items():
        hit = [key3 for key3, (ai, _) in expected.items() if ai is k]
        if not hit:         # copies: recognised by equal attributes
            hit = [key3 for key3, (ai, _) in sorted(expected.items(), key=lambda kv: kv[0])
                   if key3 not in found and getattr(ai, "__dict__", None) == getattr(k, "__dict__", 0)]
        if hit:
            found[hit[0]] = v
        else:
            unknown.append(desc(k))
    if unknown or len(found) != len(expected):
        missing = sorted(desc(ai) for key3, (ai, _) in expected.items() if key3 not in found)
        acc.violation("sample-contributing-rows-%s" % which, case, expected="missing: %r" % missing[:8],
                      observed="unexpected: %r" % sorted(unknown)[:8], standalone=snippet)
        return
    if expected:
        acc.nontrivial += 1
    acc.outcome("sample:%d-rows" % min(len(expected), 9) if len(expected) < 9 else "sample:9+-rows")
    for (Zk, Ak, pos), (ai, vals) in sorted(expected.items(), key=lambda kv: kv[0]):
        g = [fnum(v) for v in found[(Zk, Ak, pos)]]
        for j, (x, y) in enumerate(zip(g, vals)):
            if x is None or y is None or not (abs(x - y) <= 1e-12 * abs(y) + TINY):
                acc.violation("sample-abundance-weighted-sum-%s" % which, case,
                              expected="%s->%s rest %r: %r" % (ai.isotope, ai.daughter, rests[j], y),
                              observed=repr(x), standalone=snippet)
                return


# --------------------------------------------------------------------------------------- histories
# One environment object lives through several calculations (reused configuration objects): it is used,
# handed on (the same object, copy.copy, copy.deepcopy), updated IN PLACE by the caller, used again.  The
# result of the last calculation must be the one of a fresh environment constructed with the final values
# (the fresh results are the points the row sweep compares with the exact reference).
def hist_settings(tier):
    return [(f, cd, fr) for f in HIST[tier]["fluence"] for cd in HIST_CD for fr in HIST_FAST]


def set_env(env, old, new):
    """The caller updates the environment in place: only the attributes that change are assigned."""
    for name, a, b in zip(ENV_ATTRS, old, new):
        if a != b:
            setattr(env, name, b)


def transfer_env(env, how):
    return env if how == "same" else (copy.copy(env) if how == "copy" else copy.deepcopy(env))


def finite_values(d):
    for vals in d.values():
        for v in vals:
            v = fnum(v)
            if v is None or not math.isfinite(v):
                return False
    return True


def same_values(a, b, n=None):
    """Two {key: [floats]} results of the same arithmetic (first n entries of each list)."""
    if a is None or b is None or set(a) != set(b):
        return False
    for k, va in a.items():
        va, vb = list(va)[:n], list(b[k])[:n]
        if len(va) != len(vb):
            return False
        for x, y in zip(va, vb):
            x, y = fnum(x), fnum(y)
            if x is None or y is None or not (x == y or abs(x - y) <= SAME * max(abs(x), abs(y)) + TINY):
                return False
    return True


def stale_attributes(equal_to_fresh, old, new):
    """Cause probe (naming only): the smallest set of changed attributes whose OLD values explain the result."""
    changed = [i for i in range(len(ENV_ATTRS)) if old[i] != new[i]]
    for r in range(1, len(changed) + 1):
        for T in itertools.combinations(changed, r):
            h = list(new)
            for i in T:
                h[i] = old[i]
            if equal_to_fresh(tuple(h)):
                return "+".join(ENV_ATTRS[i] for i in T)
    return None


def env_histories(tier, settings):
    """(settings path, environment used before each hand-over?, hand-over) - exhaustive within the depth."""
    out = []
    for s0 in settings:
        for s1 in settings:
            if s1 == s0:
                continue
            for used in (True, False):
                for how in TRANSFERS:
                    out.append(((s0, s1), used, how))
    if HIST[tier]["depth"] >= 3:
        for s0 in settings:
            for s1 in settings:
                for s2 in settings:
                    if s1 == s0 or s2 == s1:
                        continue
                    for how in ("same", "copy"):
                        out.append(((s0, s1, s2), True, how))
    return out


def env_history_snippet(Z, A, path, used, how):
    L = ["import copy", "import periodictable as pt", "from periodictable import activation",
         "iso = %s" % iso_expr(Z, A),
         "def values(env):",
         "    res = activation.activity(iso, %r, env, %r, %r)" % (HIST_MASS, HIST_EXPOSURE, list(HIST_RESTS)),
         "    return [(a.daughter, a.reaction, v) for a, v in res.items()]",
         "env = activation.ActivationEnvironment(fluence=%r, Cd_ratio=%r, fast_ratio=%r)" % tuple(path[0])]
    for old, new in zip(path, path[1:]):
        if used:
            L.append("values(env)      # the environment is used")
        if how != "same":
            L.append("env = copy.%s(env)" % how)
        for name, a, b in zip(ENV_ATTRS, old, new):
            if a != b:
                L.append("env.%s = %r" % (name, b))
    L += ["got = values(env)",
          "fresh = values(activation.ActivationEnvironment(fluence=%r, Cd_ratio=%r, fast_ratio=%r))" % tuple(path[-1]),
          "print(got); print(fresh)", "assert got == fresh"]
    return "\n".join(L) + "\n"


def env_history_check(acc, L, key, tier, only=None):
    """All histories of one environment object for one isotope."""
    Z, A = key
    iso = L.isotope(Z, A)
    lib_rows = getattr(iso, "neutron_activation", None)
    if lib_rows is None:
        return
    settings = hist_settings(tier)
    rests = list(HIST_RESTS)

    def calc(env, rl):
        acc.evaluations += 1
        res = L.act.activity(iso, HIST_MASS, env, HIST_EXPOSURE, rl)
        return by_position(res, lib_rows)[0]

    fresh = {}
    for st in settings:
        try:
            v = calc(L.env(*st), list(rests))
            fresh[st] = v if finite_values(v) else None
        except Exception:   # noqa - reported by the row sweep; nothing to compare a history with
            fresh[st] = None
    for path, used, how in (env_histories(tier, settings) if only is None else [only]):
        path = tuple(tuple(st) for st in path)
        if any(fresh.get(st) is None for st in path):
            acc.count("env_histories_skipped_fresh_route_fails")
            continue
        variant = ("reused" if how == "same" else "copied") + ("" if used else "-unused")
        case = dict(kind="env-history", Z=Z, A=A, isotope=L.per_iso[key][0].isotope, path=[list(st) for st in path],
                    used=used, transfer=how, tier=tier)
        snippet = env_history_snippet(Z, A, path, used, how)
        acc.states += 1
        acc.traces += 1
        rl = list(rests)            # ONE list object for all calls of the history: it must come back unaltered
        env = L.env(*path[0])
        original = None
        try:
            for old, new in zip(path, path[1:]):
                acc.transitions += 1
                if used:
                    calc(env, rl)
                original = (env, old)
                env = transfer_env(env, how)
                set_env(env, old, new)
            got = calc(env, rl)
        except Exception as e:      # noqa
            acc.violation("%s-environment-raises-%s" % (variant, type(e).__name__), case,
                          expected="the activities of a fresh environment", observed=exc_text(e), standalone=snippet)
            continue
        last, prev = path[-1], path[-2]
        if not same_values(fresh[last], fresh[prev]):
            acc.nontrivial += 1
        if same_values(got, fresh[last]):
            acc.outcome("env-history:%s:equal-to-fresh" % variant)
        else:
            stale = stale_attributes(lambda h: same_values(got, fresh.get(h)), prev, last)
            if stale is None and len(path) > 2:
                stale = stale_attributes(lambda h: same_values(got, fresh.get(h)), path[0], last)
            sig = ("%s-environment-uses-stale-%s" % (variant, stale) if stale
                   else "%s-environment-differs-from-fresh-environment" % variant)
            acc.outcome("env-history:%s:VIOLATION" % variant)
            acc.violation(sig, case, expected="as with a fresh environment %r: %r" % (dict(zip(ENV_ATTRS, last)),
                          fresh[last]), observed=repr(got), standalone=snippet)
            continue
        if tuple(getattr(env, a, None) for a in ENV_ATTRS) != last:
            acc.violation("environment-argument-altered-by-activity", case, expected=repr(last),
                          observed=repr(tuple(getattr(env, a, None) for a in ENV_ATTRS)), standalone=snippet)
        if rl != rests:
            acc.violation("rest-times-argument-altered-by-activity", case, expected=repr(rests), observed=repr(rl),
                          standalone=snippet)
        if how != "same" and original is not None:
            # the environment the copy was taken from still is what it was
            o_env, o_st = original
            try:
                back = calc(o_env, rl)
            except Exception as e:  # noqa
                back = exc_text(e)
            if not (isinstance(back, dict) and same_values(back, fresh[o_st])):
                acc.violation("update-of-copied-environment-leaks-into-the-original", case,
                              expected=repr(fresh[o_st]), observed=repr(back), standalone=snippet)


def sample_values(sample):
    return dict((k, [fnum(x) for x in v]) for k, v in sample.activity.items())


def describe(vals):
    return sorted((getattr(k, "isotope", "?"), getattr(k, "daughter", "?"), getattr(k, "reaction", "?"), v)
                  for k, v in vals.items())


def sample_history_snippet(name, mass, mode, s1, s2):
    L = ["import periodictable as pt", "from periodictable import activation",
         "E = activation.ActivationEnvironment",
         "show = lambda s: sorted((a.isotope, a.daughter, a.reaction, v) for a, v in s.activity.items())",
         "fresh = activation.Sample(%r, %r)" % (name, mass),
         "fresh.calculate_activation(E(fluence=%r, Cd_ratio=%r, fast_ratio=%r), exposure=%r, rest_times=%r)"
         % (s2[0], s2[1], s2[2], HIST_EXPOSURE, list(REST[:2] if mode == "sample-recalculated" else REST))]
    if mode == "environment-reused":
        L += ["env = E(fluence=%r, Cd_ratio=%r, fast_ratio=%r)" % tuple(s1),
              "a = activation.Sample(%r, %r); a.calculate_activation(env, exposure=%r, rest_times=%r)"
              % (name, mass, HIST_EXPOSURE, list(REST)), "before = show(a)"]
        L += ["env.%s = %r" % (n, y) for n, x, y in zip(ENV_ATTRS, s1, s2) if x != y]
        L += ["s = activation.Sample(%r, %r); s.calculate_activation(env, exposure=%r, rest_times=%r)"
              % (name, mass, HIST_EXPOSURE, list(REST)), "assert show(a) == before"]
    elif mode == "sample-recalculated":
        L += ["s = activation.Sample(%r, %r)" % (name, mass),
              "s.calculate_activation(E(fluence=%r, Cd_ratio=%r, fast_ratio=%r), exposure=%r, rest_times=%r)"
              % (s1[0], s1[1], s1[2], 3 * HIST_EXPOSURE, list(REST)),
              "s.calculate_activation(E(fluence=%r, Cd_ratio=%r, fast_ratio=%r), exposure=%r, rest_times=%r)"
              % (s2[0], s2[1], s2[2], HIST_EXPOSURE, list(REST[:2]))]
    else:
        L += ["f = pt.formula(%r); before = (str(f), dict(f.atoms), f.density)" % name,
              "for again in (1, 2):",
              "    s = activation.Sample(f, %r)" % mass,
              "    s.calculate_activation(E(fluence=%r, Cd_ratio=%r, fast_ratio=%r), exposure=%r, rest_times=%r)"
              % (s2[0], s2[1], s2[2], HIST_EXPOSURE, list(REST)),
              "    assert (str(f), dict(f.atoms), f.density) == before"]
    L += ["print(show(s)); print(show(fresh))", "assert show(s) == show(fresh)"]
    return "\n".join(L) + "\n"


def sample_history_check(acc, L, name, spec, tier, only=None, mass=SAMPLE_MASS):
    """Sample and environment objects that are used more than once (default abundance)."""
    pt, act = L.pt, L.act
    g = SAMPLE_HIST[tier]
    settings = [(g["fluence"], cd, fr) for cd in g["cd"] for fr in g["fast"]]

    def run(sample, env, exposure=HIST_EXPOSURE, rests=REST):
        acc.evaluations += 1
        sample.calculate_activation(env, exposure=exposure, rest_times=list(rests))
        return sample

    fresh = {}
    try:
        for st in settings:
            v = sample_values(run(act.Sample(name, mass), L.env(*st)))
            if not finite_values(v):
                raise ValueError("non-finite activity")
            fresh[st] = v
    except Exception:   # noqa - reported by sample_check / the row sweep
        acc.count("sample_histories_skipped_fresh_route_fails")
        return

    def report(sig, mode, s1, s2, expected, observed):
        case = dict(kind="sample-history", formula=name, spec=[list(x) for x in spec], mode=mode,
                    first=list(s1), second=list(s2), mass=mass, tier=tier)
        acc.violation(sig, case, expected=expected, observed=observed,
                      standalone=sample_history_snippet(name, mass, mode, s1, s2))
        acc.outcome("sample-history:%s:VIOLATION" % mode)

    def judge(mode, what, s1, s2, do):
        if only is not None and only != (mode, tuple(s1), tuple(s2)):
            return
        acc.states += 1
        acc.transitions += 1
        acc.traces += 1
        if not same_values(fresh[s1], fresh[s2]):
            acc.nontrivial += 1
        try:
            problem = do()
        except Exception as e:  # noqa
            report("%s-raises-%s" % (what, type(e).__name__), mode, s1, s2, "the activities of a fresh sample",
                   exc_text(e))
            return
        if problem is None:
            acc.outcome("sample-history:%s:equal-to-fresh" % mode)
        else:
            report(problem[0], mode, s1, s2, problem[1], problem[2])

    for s1 in settings:
        for s2 in settings:
            if s1 == s2:
                continue

            def env_reused():
                env = L.env(*s1)
                a = run(act.Sample(name, mass), env)
                before = sample_values(a)
                set_env(env, s1, s2)
                b = sample_values(run(act.Sample(name, mass), env))
                if not same_values(b, fresh[s2]):
                    stale = stale_attributes(lambda h: same_values(b, fresh.get(h)), s1, s2)
                    return ("sample-with-reused-environment-uses-stale-%s" % stale if stale else
                            "sample-with-reused-environment-differs-from-fresh-environment",
                            repr(describe(fresh[s2])), repr(describe(b)))
                if not same_values(sample_values(a), before) or not same_values(before, fresh[s1]):
                    return ("earlier-sample-result-altered-by-later-calculation", repr(describe(before)),
                            repr(describe(sample_values(a))))
                return None

            def recalculated():
                s = act.Sample(name, mass)
                run(s, L.env(*s1), exposure=3 * HIST_EXPOSURE)
                run(s, L.env(*s2), rests=REST[:2])
                got = sample_values(s)
                if not same_values(got, fresh[s2], n=2) or any(len(v) != 2 for v in got.values()):
                    return ("recalculated-sample-differs-from-fresh-sample",
                            repr(describe(dict((k, v[:2]) for k, v in fresh[s2].items()))), repr(describe(got)))
                return None

            judge("environment-reused", "sample-with-reused-environment", s1, s2, env_reused)
            judge("sample-recalculated", "recalculated-sample", s1, s2, recalculated)

    # a Formula object handed to two Samples comes back unaltered and gives the result of the formula string
    st = settings[-1]

    def formula_object():
        f = pt.formula(name)
        snap = lambda: (str(f), sorted((repr(k), v) for k, v in f.atoms.items()), f.density, repr(f.structure))
        before = snap()
        for again in (1, 2):
            got = sample_values(run(act.Sample(f, mass), L.env(*st)))
            if snap() != before:
                return ("formula-argument-altered-by-sample", repr(before), repr(snap()))
            if not same_values(got, fresh[st]):
                return ("sample-from-formula-object-differs-from-sample-from-string", repr(describe(fresh[st])),
                        repr(describe(got)))
        return None

    judge("formula-object-reused", "sample-from-formula-object", st, st, formula_object)


# --------------------------------------------------------------------------------------- rest-time list shapes
# The statement speaks of "every rest time": an entry of the result belongs to ITS rest time, whatever else the
# list holds and in whatever order.  Every list over a small per-isotope alphabet of times (0; a usual time; a
# time beyond the underflow of the isotope's shortest-lived product, where its activity is exactly 0.0; the end
# of the quantifier's range) is executed - every order, every repetition, 0 in every position - and every entry
# must equal the entry of the call with that single time (a second route through the same arithmetic).  The
# single-time values are tied to the exact reference through the rest edge A(t) = A(0) 2^(-t/T) and through the
# row sweep's own list REST, which is one of the lists.
def underflow_time(thalfs):
    """A rest time (3 significant digits) at which a product with the shortest of the half-lives has decayed by
    exp(-1200) = 0.0 exactly, or None if that lies beyond the quantifier's 1e5 h."""
    tmin = min(thalfs)
    t = float("%.3g" % float(Decimal(SHAPE_UNDERFLOW) * tmin / RA.LN2))
    return t if 0 < t < SHAPE_END else None


def shape_times(tier, thalfs):
    tu = underflow_time(thalfs)
    return tuple(SHAPE_NO_UNDERFLOW if t is None and tu is None else (tu if t is None else t)
                 for t in SHAPE[tier]["times"])


def shape_lists(times, maxlen, permutations=False):
    """Every sequence of length 1..maxlen over the alphabet (+ every permutation of the whole alphabet)."""
    out, seen = [], set()
    for n in range(1, maxlen + 1):
        for seq in itertools.product(times, repeat=n):
            if seq not in seen:
                seen.add(seq)
                out.append(seq)
    extra = [tuple(REST)] + (list(itertools.permutations(times)) if permutations else [])
    for seq in extra:
        if seq not in seen:
            seen.add(seq)
            out.append(seq)
    return out


def list_class(times):
    if list(times) != sorted(times):
        return "list-not-ascending"
    if len(set(times)) != len(times):
        return "repeated-time"
    return "ascending-list"


def entry_class(times, j, zero_at):
    """Input class of entry j (naming only): zero_at = the times at which this product's single-time value is 0.0."""
    if times[j] not in zero_at and any(t in zero_at for t in times[:j]):
        return "after-a-time-at-which-the-product-has-decayed-to-zero"
    return list_class(times)


def shape_snippet(case):
    head = ("import periodictable as pt\nfrom periodictable import activation\n"
            "env = activation.ActivationEnvironment(fluence=%(fluence)r, Cd_ratio=%(Cd_ratio)r, fast_ratio=%(fast_ratio)r)\n"
            "times = %(times)r\n" % case)
    if case["kind"] == "rest-shape":
        body = ("iso = %s\nai = iso.neutron_activation[%d]   # %s -> %s (%s)\n"
                "got = activation.activity(iso, %r, env, %r, list(times))[ai]\n"
                "one = [activation.activity(iso, %r, env, %r, [t])[ai][0] for t in times]\n"
                % (iso_expr(case["Z"], case["A"]), case["pos"], case["isotope"], case["daughter"], case["reaction"],
                   case["mass"], case["exposure"], case["mass"], case["exposure"]))
    else:
        body = ("def table(rest_times):\n"
                "    s = activation.Sample(%r, %r)\n"
                "    s.calculate_activation(env, exposure=%r, rest_times=rest_times)\n"
                "    rows = [v for a, v in s.activity.items() if (a.isotope, a.daughter, a.reaction) == %r]\n"
                "    return rows[%d]\n"
                "got = table(tuple(times))\n"
                "one = [table((t,))[0] for t in times]\n"
                % (case["formula"], case["mass"], case["exposure"], tuple((case.get("row") or ["?"] * 4)[:3]),
                   (case.get("row") or [0] * 4)[3]))
    return head + body + ("print(got); print(one)\n"
                          "assert len(got) == len(one) and all(abs(g - o) <= 1e-12*abs(o) + 1e-290 "
                          "for g, o in zip(got, one))\n")


def compare_shape(acc, case, times, got, single, finish):
    """got: {key: values} of the list call; single: {t: {key: value}}; finish(case, key) -> (case, snippet).
    Reports and returns False on a deviation."""
    keys0 = set(single[times[0]])
    if set(got) != keys0:
        c, snip = finish(dict(case, times=list(times), entry=0), None)
        acc.violation("rest-time-list-changes-the-rows-of-the-result:" + list_class(times), c,
                      expected=repr(sorted(keys0)), observed=repr(sorted(got)), standalone=snip)
        return False
    ok = True
    for k in sorted(got):
        vals = list(got[k])
        if len(vals) != len(times):
            c, snip = finish(dict(case, times=list(times), entry=0), k)
            acc.violation("wrong-number-of-rest-times", c, expected=len(times), observed=len(vals), standalone=snip)
            ok = False
            continue
        zero_at = set(t for t in single if single[t].get(k) == 0)
        for j, t in enumerate(times):
            acc.traces += 1
            x, y = fnum(vals[j]), single[t][k]
            if x is not None and (x == y or abs(x - y) <= SAME * max(abs(x), abs(y)) + TINY):
                continue
            c, snip = finish(dict(case, times=list(times), entry=j), k)
            acc.violation("rest-time-entry-differs-from-single-time-call:" + entry_class(times, j, zero_at), c,
                          expected="entry %d (rest time %r h) = %r as in the call with that single rest time"
                          % (j, t, y), observed=repr(vals), standalone=snip)
            ok = False
            break
    return ok


def canonical_table(activity):
    """{(isotope, daughter, reaction, n-th row of that name): values} of a Sample.activity table (records of the
    table may share target, product and reaction; the table order is the order of the calculation)."""
    out, seen = {}, {}
    for a, v in activity.items():
        name = (str(getattr(a, "isotope", "?")), str(getattr(a, "daughter", "?")), str(getattr(a, "reaction", "?")))
        n = seen[name] = seen.get(name, -1) + 1
        out[name + (n,)] = v
    return out


def rest_shape_check(acc, L, key, tier, only=None):
    """All rest-time lists over the isotope's alphabet of times, through activity()."""
    Z, A = key
    rows = L.per_iso[key]
    iso = L.isotope(Z, A)
    lib_rows = getattr(iso, "neutron_activation", None)
    if lib_rows is None or len(lib_rows) != len(rows):
        return          # reported by the row sweep ("rows-differ-from-table")
    times = shape_times(tier, [r.thalf_hrs for r in rows])
    lists = shape_lists(times, SHAPE[tier]["maxlen"])
    alphabet = sorted(set(times) | set(REST))
    mass = MASS[0]
    for fluence, cd, fr in SHAPE_ENVS:
        for exposure in SHAPE_EXPOSURES:
            if only is not None and only[:4] != (fluence, cd, fr, exposure):
                continue
            env = L.env(fluence, cd, fr)
            base = dict(kind="rest-shape", Z=Z, A=A, isotope=rows[0].isotope, fluence=fluence, Cd_ratio=cd,
                        fast_ratio=fr, exposure=exposure, mass=mass, tier=tier)

            def finish(c, pos):
                r = rows[pos if pos is not None else 0]
                c = dict(c, pos=r.pos, daughter=r.daughter, reaction=r.reaction)
                return c, shape_snippet(c)

            single = {}
            try:
                for t in alphabet:
                    acc.evaluations += 1
                    res = by_position(L.act.activity(iso, mass, env, exposure, [t]), lib_rows)[0]
                    single[t] = dict((pos, fnum(v[0])) for pos, v in res.items())
                    if any(v is None or not math.isfinite(v) for v in single[t].values()):
                        raise ValueError("non-finite")
            except Exception:       # noqa - reported by the row sweep; nothing to compare a list with
                acc.count("rest_shapes_skipped_single_time_call_fails")
                continue
            # the single-time values hang on the exact reference through the rest edge (the values at rest 0
            # of this environment are points of the row sweep)
            for r in rows:
                a0 = single[0.0].get(r.pos)
                if a0 is None:
                    continue
                for t in alphabet[1:]:
                    acc.transitions += 1
                    want = a0 * RA.to_float(RA.rest_factor(r, t))
                    got = single[t][r.pos]
                    if abs(got - want) > REL * abs(want) + TINY:
                        c = make_case(r, fluence, cd, fr, exposure, mass, t, kind="rest-edge")
                        acc.violation("rest-decay-%s" % r.family, c, expected="A(0)*2^(-t/T) = %r" % want,
                                      observed=repr(got), standalone=(
                                          "import periodictable as pt\nfrom periodictable import activation\n"
                                          "env = activation.ActivationEnvironment(fluence=%r, Cd_ratio=%r, fast_ratio=%r)\n"
                                          "iso = %s\nai = iso.neutron_activation[%d]\n"
                                          "a0 = activation.activity(iso, %r, env, %r, [0])[ai][0]\n"
                                          "a1 = activation.activity(iso, %r, env, %r, [%r])[ai][0]\n"
                                          "assert abs(a1 - a0*2**(-%r/ai.Thalf_hrs)) <= 1e-9*a0, (a0, a1)\n"
                                          % (fluence, cd, fr, iso_expr(Z, A), r.pos, mass, exposure, mass, exposure,
                                             t, t)))
            for seq in (lists if only is None else [tuple(only[4])]):
                acc.states += 1
                if list_class(seq) != "ascending-list":
                    acc.nontrivial += 1
                arg = list(seq)
                acc.evaluations += 1
                try:
                    got = by_position(L.act.activity(iso, mass, env, exposure, arg), lib_rows)[0]
                except Exception as e:      # noqa
                    c, snip = finish(dict(base, times=list(seq), entry=0), None)
                    acc.violation("rest-time-list-raises-%s:%s" % (type(e).__name__, list_class(seq)), c,
                                  expected="the activities of the single-time calls", observed=exc_text(e),
                                  standalone=snip)
                    acc.outcome("rest-shape:%s:raises" % list_class(seq))
                    continue
                if arg != list(seq):
                    c, snip = finish(dict(base, times=list(seq), entry=0), None)
                    acc.violation("rest-times-argument-altered-by-activity", c, expected=repr(list(seq)),
                                  observed=repr(arg), standalone=snip)
                ok = compare_shape(acc, base, seq, got, single, finish)
                acc.outcome("rest-shape:%s:%s" % (list_class(seq), "equal-to-single-time-calls" if ok else "VIOLATION"))
    acc.info["max_rest_time_lists_per_isotope"] = max(acc.info.get("max_rest_time_lists_per_isotope", 0), len(lists))
    if underflow_time([r.thalf_hrs for r in rows]) is not None:
        acc.count("isotopes_with_a_rest_time_beyond_underflow")


def rest_shape_sample_check(acc, L, name, spec, tier, only=None, mass=SAMPLE_MASS):
    """The same lists through Sample.calculate_activation (rest times handed over as a tuple, fresh Sample each)."""
    act = L.act
    thalfs = []
    for sym, A, n, q in norm_spec(spec):
        Zs = [k for k in L.per_iso if L.per_iso[k][0].symbol == sym and (A is None or k[1] == A)]
        for k in Zs:
            thalfs += [r.thalf_hrs for r in L.per_iso[k]]
    if not thalfs:
        return
    times = shape_times(tier, thalfs)
    lists = shape_lists(times, SHAPE[tier]["sample_maxlen"], permutations=True)
    alphabet = sorted(set(times) | set(REST))
    for fluence, cd, fr in SHAPE_ENVS:
        exposure = SHAPE_EXPOSURES[0]
        if only is not None and only[:4] != (fluence, cd, fr, exposure):
            continue
        env = L.env(fluence, cd, fr)
        base = dict(kind="rest-shape-sample", formula=name, spec=[list(s) for s in spec], fluence=fluence,
                    Cd_ratio=cd, fast_ratio=fr, exposure=exposure, mass=mass, tier=tier)
        def finish(c, k):
            c = dict(c, row=list(k) if k is not None else None)
            return c, shape_snippet(c)

        def table(rest_times):
            acc.evaluations += 1
            s = act.Sample(name, mass)
            s.calculate_activation(env, exposure=exposure, rest_times=rest_times)
            return canonical_table(s.activity)

        single = {}
        try:
            for t in alphabet:
                single[t] = dict((a, fnum(v[0])) for a, v in table((t,)).items())
                if any(v is None or not math.isfinite(v) for v in single[t].values()):
                    raise ValueError("non-finite")
        except Exception:       # noqa - reported by sample_check / the row sweep
            acc.count("rest_shapes_skipped_single_time_call_fails")
            continue
        for seq in (lists if only is None else [tuple(only[4])]):
            acc.states += 1
            if list_class(seq) != "ascending-list":
                acc.nontrivial += 1
            try:
                got = table(tuple(seq))
            except Exception as e:      # noqa
                c, snip = finish(dict(base, times=list(seq), entry=0), None)
                acc.violation("sample-rest-time-list-raises-%s:%s" % (type(e).__name__, list_class(seq)), c,
                              expected="the activities of the single-time calls", observed=exc_text(e),
                              standalone=snip)
                continue
            ok = compare_shape(acc, base, seq, got, single, finish)
            acc.outcome("rest-shape-sample:%s:%s" % (list_class(seq),
                                                     "equal-to-single-time-calls" if ok else "VIOLATION"))


# --------------------------------------------------------------------------------------- table identity
def table_check(acc, L):
    """The isotopes carrying activation records are exactly those of the file."""
    have = set()
    for el in L.pt.elements:
        for A in el.isotopes:
            acc.states += 1
            if hasattr(el[A], "neutron_activation"):
                have.add((el.number, A))
    want = set(L.per_iso)
    acc.evaluations += 1
    acc.transitions += 1
    if have != want:
        acc.violation("isotopes-with-activation-data-differ", dict(kind="table"),
                      expected="missing %r" % sorted(want - have)[:10], observed="extra %r" % sorted(have - want)[:10])
    rep = L.report
    acc.info["table_rows"] = len(L.rows)
    acc.info["table_isotopes"] = len(L.per_iso)
    acc.info["reader_hours_column_mismatch_rows"] = len(rep["hours_mismatch"])
    acc.info["reader_text_column_mismatch_rows"] = len(rep["text_mismatch"])


# --------------------------------------------------------------------------------------- shards
def _shard(job):
    with decimal.localcontext(RA.CTX):      # Decimal operators at 80 digits, too
        return _shard80(job)


def _shard80(job):
    kind = job[0]
    acc = Acc()
    L = lib()
    if kind == "rows":
        _, tier, keys = job
        g = GRID[tier]
        for key in keys:
            key = tuple(key)
            sweep_isotope(acc, L, key, g["fluence"], g["exposure"])
            r0 = L.per_iso[key][0]
            if r0.index % 40 == 1:
                acc.sample(dict(isotope=r0.isotope, rows=[[r.daughter, r.reaction] for r in L.per_iso[key]],
                                grid=dict(fluence=g["fluence"], exposure=g["exposure"], Cd_ratio_x_fast_ratio=RATIOS,
                                          mass=MASS, rest=REST)))
    elif kind == "samples":
        _, tier, items = job
        g = SAMPLE_GRID[tier]
        for name, spec in items:
            for which in ("default", "NIST", "IAEA"):
                for fluence in g["fluence"]:
                    for cd in g["cd"]:
                        for fr in g["fast"]:
                            for exposure in g["exposure"]:
                                sample_check(acc, L, name, spec, fluence, cd, fr, exposure, which)
            if len(acc.samples) < 2:
                acc.sample(dict(sample=name, mass=SAMPLE_MASS, grid=g))
    elif kind == "ions":
        _, tier, zs = job
        g = SAMPLE_GRID[tier]
        for name, spec in ion_items(acc, L, zs):
            for which in ("default", "NIST", "IAEA"):
                for fluence in g["fluence"]:
                    for cd in g["cd"]:
                        for fr in g["fast"]:
                            for exposure in g["exposure"]:
                                sample_check(acc, L, name, spec, fluence, cd, fr, exposure, which)
            sample_history_check(acc, L, name, spec, tier)
            if len(acc.samples) < 1:
                acc.sample(dict(sample=name, mass=SAMPLE_MASS, grid=g))
    elif kind == "envhist":
        _, tier, keys = job
        for key in keys:
            env_history_check(acc, L, tuple(key), tier)
        if keys:
            st = hist_settings(tier)
            acc.sample(dict(history_of_one_environment=dict(
                isotope=L.per_iso[tuple(keys[0])][0].isotope, settings=st, depth=HIST[tier]["depth"],
                hand_over=TRANSFERS, used_before_hand_over=[True, False], exposure=HIST_EXPOSURE, mass=HIST_MASS,
                rest=HIST_RESTS)))
    elif kind == "samplehist":
        _, tier, items = job
        for name, spec in items:
            sample_history_check(acc, L, name, spec, tier)
    elif kind == "restshape":
        _, tier, keys = job
        for key in keys:
            rest_shape_check(acc, L, tuple(key), tier)
        if keys:
            k0 = tuple(keys[0])
            acc.sample(dict(rest_time_lists=dict(
                isotope=L.per_iso[k0][0].isotope, times=shape_times(tier, [r.thalf_hrs for r in L.per_iso[k0]]),
                lists="every sequence of length 1..%d over these times" % SHAPE[tier]["maxlen"],
                environments=SHAPE_ENVS, exposures=SHAPE_EXPOSURES, mass=MASS[0])))
    elif kind == "restshape-samples":
        _, tier, items = job
        for name, spec in items:
            rest_shape_sample_check(acc, L, name, spec, tier)
    elif kind == "table":
        table_check(acc, L)
    else:
        raise MachineryError("unknown job %r" % (kind,))
    return acc


def ion_items(acc, L, zs):
    """For every element with activation data and at least one charge state: the ion of the natural element
    and the ion of its lightest isotope that has activation data (charge of smallest magnitude, + before -)."""
    out = []
    first = {}
    for (Z, A) in sorted(L.per_iso):
        first.setdefault(Z, A)
    for Z in zs:
        el = L.pt.elements[Z]
        ions = tuple(getattr(el, "ions", ()))
        if not ions:
            acc.count("elements_without_charge_states")
            continue
        q = min(ions, key=lambda c: (abs(c), -c))
        sym = el.symbol
        out.append(("%s%s" % (sym, charge_text(q)), ((sym, None, 1, q),)))
        out.append(("%s[%d]%s" % (sym, first[Z], charge_text(q)), ((sym, first[Z], 1, q),)))
    return out


def balanced(keys, weight, n):
    """n disjoint bins of keys with nearly equal total weight (deterministic greedy)."""
    bins = [[0, []] for _ in range(max(1, n))]
    for k in sorted(keys, key=lambda k: (-weight(k), k)):
        b = min(bins, key=lambda b: b[0])
        b[0] += weight(k)
        b[1].append(k)
    return [sorted(b[1]) for b in bins if b[1]]


def run(ctx):
    rows, per_iso, report, col = RA.read_rows()
    keys = rotate(sorted(per_iso), ctx.seed)
    nshards = 32 if ctx.quick else 64
    jobs = [("rows", ctx.tier, ks) for ks in balanced(keys, lambda k: len(per_iso[k]), nshards)]
    symbols = {}
    for r in rows:
        symbols.setdefault(r.Z, r.symbol)
    items = [(symbols[Z], ((symbols[Z], None, 1),)) for Z in sorted(symbols)] + list(COMPOUNDS)
    items = rotate(items, ctx.seed)
    jobs += [("samples", ctx.tier, ch) for ch in chunks(items, 8 if ctx.quick else 16)]
    jobs += [("ions", ctx.tier, ch) for ch in chunks(rotate(sorted(symbols), ctx.seed), 8 if ctx.quick else 16)]
    jobs += [("samplehist", ctx.tier, ch) for ch in chunks(items, 4)]
    jobs += [("envhist", ctx.tier, ks) for ks in balanced(keys, lambda k: len(per_iso[k]), 16 if ctx.quick else 32)]
    jobs += [("restshape", ctx.tier, ks) for ks in balanced(keys, lambda k: len(per_iso[k]), 16 if ctx.quick else 32)]
    jobs += [("restshape-samples", ctx.tier, ch) for ch in chunks(items, 8 if ctx.quick else 4)]
    jobs.append(("table",))
    ctx.pmap(_shard, jobs)
    acc = ctx.acc
    g = GRID[ctx.tier]
    acc.info["grid_environments_per_row"] = (len(g["fluence"]) * len(g["exposure"]) * len(RATIOS)
                                             * len(MASS) * len(REST))
    acc.info["rows"] = len(rows)
    acc.info["sample_formulas"] = len(items)
    acc.info["environment_settings_per_history"] = len(hist_settings(ctx.tier))
    acc.info["environment_histories_per_isotope"] = len(env_histories(ctx.tier, hist_settings(ctx.tier)))


# --------------------------------------------------------------------------------------- replay
def replay(ctx, case, signature=None):
    with decimal.localcontext(RA.CTX):
        _replay80(ctx, case)


def _replay80(ctx, case):
    L = lib()
    acc = ctx.acc
    kind = case.get("kind")
    if kind == "table":
        if "Z" in case:
            sweep_isotope(acc, L, (case["Z"], case["A"]), (1e5,), (1.0,), thresholds=False)
        else:
            table_check(acc, L)
        return
    if kind == "env-history":
        only = (tuple(tuple(st) for st in case["path"]), case["used"], case["transfer"])
        env_history_check(acc, L, (case["Z"], case["A"]), case.get("tier", "quick"), only=only)
        return
    if kind == "sample-history":
        spec = [tuple(x) for x in case["spec"]]
        sample_history_check(acc, L, case["formula"], spec, case.get("tier", "quick"),
                             only=(case["mode"], tuple(case["first"]), tuple(case["second"])),
                             mass=case.get("mass", SAMPLE_MASS))
        return
    if kind in ("rest-shape", "rest-shape-sample"):
        only = (case["fluence"], case["Cd_ratio"], case["fast_ratio"], case["exposure"], tuple(case["times"]))
        if kind == "rest-shape":
            rest_shape_check(acc, L, (case["Z"], case["A"]), case.get("tier", "quick"), only=only)
        else:
            rest_shape_sample_check(acc, L, case["formula"], [tuple(x) for x in case["spec"]],
                                    case.get("tier", "quick"), only=only, mass=case.get("mass", SAMPLE_MASS))
        return
    if kind == "sample":
        spec = [tuple(s) for s in case["spec"]]
        sample_check(acc, L, case["formula"], spec, case["fluence"], case["Cd_ratio"], case["fast_ratio"],
                     case["exposure"], case["abundance"], mass=case.get("mass", SAMPLE_MASS))
        return
    key = (case["Z"], case["A"])
    if key not in L.per_iso:
        raise MachineryError("replay: isotope %r not in activation.dat" % (key,))
    exposure = case["exposure"]
    exposures = tuple(exposure) if isinstance(exposure, (list, tuple)) else (exposure,)
    masses = MASS if case["mass"] in MASS else (MASS[0], case["mass"])
    rests = REST if case["rest"] in REST else (0.0, case["rest"])
    sweep_isotope(acc, L, key, (case["fluence"],), exposures, only={case["pos"]}, masses=masses, rests=rests,
                  ratios=((case["Cd_ratio"], case["fast_ratio"]),), thresholds=False)
