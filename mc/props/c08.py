"""C08 - atoms are unique per table and every lookup route returns the same object
(DESIGN section 4, C08; parts 1 and 2 - the E2 part with lazy loaders is separate).

Part 1, complete sweep.  For every table configuration (public table; private table made by
`PeriodicTable(name)` + `mass.init` + `density.init`; thorough: also private against private) and
every first-touch variant, every element, isotope, element ion and isotope ion of the table is
looked up through every route; all results must be the one object, the key fields of the result
must equal the key that was used, iteration must be strictly increasing and complete, and every
invalid neighbour of a valid key must raise.  Last, per element: every route that hands a CONTAINER to
the caller (`.isotopes`, `.ions` of the element, of an isotope, of an ion, via symbol()) x every in-place
mutation the container's type allows (list: reverse, sort descending, pop first/last, overwrite, clear,
append/insert a bogus key; dict/set likewise; iterators are consumed; tuples are immune): afterwards
iteration (same objects, same order), the isotopes list, el[A], 'A-Sym' lookups, the charges, ion[q] and
the invalid neighbours must be as before - a returned container is the caller's own copy.

Part 1b, keys of other Python types (inside the sweep).  A lookup key need not be an `int` or a `str`.  Next to
every valid key K of every route (table[Z], el[A], el.ion[q], isotope.ion[q], and add_isotope on a scratch
table) stand keys of the other legal types, each written as an expression in K: numerically EQUAL ones
(float(K), numpy ints and floats, Fraction, Decimal, complex(K, 0), bool for 0/1, -0.0), SPELLINGS of K
(str(K), with blanks, 'K.0', bytes, (K,), [K]) and numerically UNEQUAL ones (K +- 0.5, 0.25, 0.9, one ulp, numpy
floats, Fraction, Decimal, complex(K, 1), 'K.5', 'Kx', K + 2**8/16/32/64, -K), plus keys that belong to no K
(None, nan, inf, '', b'', (), 10**30, True/False).  Equal keys and spellings: the lookup raises or returns the
very object of the int key (whose field equals the key numerically); unequal keys must raise (add_isotope:
must not hand out one of the existing isotopes).  The string routes get the same: str subclass, bytes, tuple,
number, ' 56-Fe', '+56-Fe', '056-Fe', '56.0-Fe' (raise or the same object), '56.5-Fe', '55.75-Fe', '56.9-Fe',
'56x-Fe' (raise).

Part 2, lookup-sequence graph.  Ion objects are created on first use, so identity is a property of
the ORDER of first lookups.  State = a fresh private table + the event history.  Depth-first: each
successor state is produced by executing the event in a forked copy of the interpreter that holds
the state (fork = snapshot), so every history runs on its own copy of a fresh table and every edge
is executed once; `replay` re-executes a history sequentially on a newly created table.  Invariant:
no route ever returns an object different from the one an earlier route returned for the same
(Z, A, charge) of the same table, and the result's Z, A, charge are the ones asked for.

Part 4, table-construction histories.  Pickle / copy / deepcopy find an atom's table by NAME, so what
they return depends on which tables were constructed under which names.  State = the public table, a
private table and every table constructed since (all alive); event = construct a table under the name
still in use, the public name, a fresh name, or a near collision of either (case changed, blank added);
the library may refuse a name (nothing may change then).  After every event every restore route
(pickle all protocols, copy, deepcopy, inside a container, inside a formula) and a plain lookup run over
the atoms of EVERY live table - a fixed set with every kind of atom incl. an ion first created in that
round, or all atoms of the table - against the ledger of every object returned before.

Part 5, first access through a key of another type.  Ions are created under the key that asked first, so
for a fixed set of atoms of every kind (public and a fresh private table) x every equal key / spelling:
in a forked copy of the untouched state the FIRST lookup uses that key; afterwards the int key, pickle,
copy, deepcopy, the same key again and change_table (there and back) must all give that one object, whose
field equals the int key.

Part 6, module attributes of every table.  `core.define_elements(table, namespace)` is the documented way to make
the atoms of a table attributes of a module (the package does it for the public table).  State = a namespace -
fresh; filled by `from periodictable import *`; filled by define_elements of another private table; holding
unrelated values (numbers, None, False, '', containers, a function, a module) under element symbols and names
(I, K, lead, tin, D, T, ...) - + the history of define_elements events over the public and two private tables, in
every order.  After every event every documented name (119 symbols, 119 names, D, T, deuterium, tritium; read
from the table by number) must be, as attribute of the module, the very atom of the table defined last; [A],
.ion[q], isotope ions, pickle and deepcopy reached through the attribute stay in that table; all four tables
still resolve every number to the atom they had at the start; the returned sequence lists the names defined.

Every lookup is an expression / statement string that is compiled once and evaluated on the real
library, so the standalone snippet of a violation is literally the code that was run."""
import gc, itertools, os, pickle, sys, traceback
from .. import common
from ..common import Acc, load_pt, rotate, MachineryError

META = dict(
    level="model_checking", engine="E1",
    technique="complete atom x route sweep + bounded-exhaustive lookup-order, table-construction and define_elements histories on fresh tables",
    rule=("sweep: one case per (table configuration, first-touch variant, Z, A, charge) - all 119 elements, "
          "all isotopes, all element ions, all isotope ions - each compared over >= 8 lookup routes, plus one "
          "case per invalid neighbour key (a key whose literal text no atom's fields can match), plus one case per "
          "(element, container-returning route, in-place mutation of the returned container) after which "
          "iteration, isotope lists, el[A], 'A-Sym' lookups, charges and ion[q] are re-checked; keys of other "
          "Python types: one case per (route in table[Z], el[A], el.ion[q], isotope.ion[q], add_isotope on a scratch "
          "table, symbol(), name(), isotope(); valid key K of every atom of the table; key expression in K out of 45 - "
          "float/numpy/Fraction/Decimal/complex/bool equal to K, text/bytes/tuple/list spellings of K, K +- 0.5, 0.25, "
          "0.9, 1 ulp, 'K.5', 'Kx', K + 2**8..2**64, -K) plus 16 keys per container that belong to no K (None, nan, inf, "
          "'', b'', (), 10**30, True, False, -0.0): a key that equals or spells K raises or returns the object of the "
          "int key (field == key), every other key raises (add_isotope: never hands out an existing isotope); first "
          "access by such a key: one forked copy of the untouched state per (public / fresh private table, 14 atoms of "
          "all four kinds, 19 equal keys and spellings), then int key, pickle 0/2/5, copy, deepcopy, the key again, "
          "change_table there and back must give one object whose field equals the int key; sequence "
          "graph: one state per event history on its own copy of a fresh private table, non-trivial = the "
          "last event obtains a (Z, A, charge) through a route different from the one that produced it first; "
          "table-construction histories: one state per sequence of construction events (same name as the live private "
          "table, public name, fresh name, case-changed name, name with a blank, capitalised public name) on a forked "
          "copy of an interpreter holding the public and one private table; in every state every atom of a fixed set "
          "(all four kinds, D/T, neutron, last element, one ion created in that round) - or every atom - of every live "
          "table x lookup, pickle protocols 0..5, copy, deepcopy, in a container (2 ways), in a formula (2 ways) must be "
          "the object returned before; non-trivial = the event constructed a table; module attributes: one state per "
          "(kind of namespace out of 4: fresh dict, after `from periodictable import *`, after define_elements of another "
          "private table, unrelated values under 16 element symbols / names; history of define_elements(table, namespace) "
          "events over the public and two private tables, every order, repetitions included), each on a forked copy; in "
          "every state all 242 documented names as attributes of the module whose __dict__ the namespace is must be the "
          "atoms of the table defined last (identity with table[Z], table[1][2], table[1][3]), then per atom el[A] "
          "(lightest, heaviest), ion[q] (lowest, highest charge), one isotope ion, pickle and deepcopy of the atom and of "
          "the last of these, all four tables re-read by number, and the returned names; non-trivial = at least one "
          "documented name held an atom of another table or an unrelated value before the event"),
    bound=dict(
        quick="complete sweep of the public and one private table x 3 first-touch variants (incl. 7 container "
              "routes x up to 8 mutations per element, and every key of another type next to every valid key of "
              "every route - about 1.03 million keys per table sweep); all 490 first-access cases; all lookup "
              "histories of length <= 4 over the 14-event alphabet; all table-construction histories of length <= 2 "
              "over 6 construction events (42), all atoms of all live tables after a first event that constructed a table; "
              "all define_elements histories of length <= 3 over 3 tables x 4 kinds of namespace (160 states)",
        thorough="complete sweep of public, private and private-vs-private x 3 first-touch variants (incl. the "
                 "container mutations and the keys of other types); all 490 first-access cases; all "
                 "lookup histories of length <= 5 over the 14-event alphabet; all table-construction histories of "
                 "length <= 3 (258), all atoms of all live tables after each of the first two events that constructed a table; "
                 "all define_elements histories of length <= 4 over 3 tables x 4 kinds of namespace (484 states)"),
    assumptions=[
        "tables are mass- and density-initialised and no lazy loader runs (loaders that add isotopes are "
        "the E2 part of C08)",
        "not judged (text silent): isotope('0-Sym'), el[0], ion[0], which symbol/name an 'A-H' lookup of D/T reports",
        "keys of other Python types: a key that is numerically equal to a valid int key (56.0, numpy.int64(56), "
        "Fraction(56), Decimal(56), complex(56, 0), True for 1, -0.0 for 0) or spells it without being a number "
        "('56', ' 56', '56 ', '56.0', '056', b'56', (56,), [56]; ' 56-Fe', '+56-Fe', '056-Fe', '56.0-Fe', '56 -Fe', "
        "b'56-Fe', (56, 'Fe'); b'Fe', 26 or '26' given to symbol()/name()/isotope()) may be refused or accepted - "
        "when accepted the result must be the very object of the int key, so its field equals the key numerically "
        "(the type in which an ion remembers its charge after such a first access is not judged); every key that "
        "differs numerically from all valid keys is an unknown key and must raise; add_isotope may create a new "
        "isotope for any key but must not return an isotope that existed under another number",
        "the D/T aliases (symbols D, T; names deuterium, tritium = H[2], H[3]) are taken from the "
        "PeriodicTable docstrings",
        "'restore-first' emulates a pickle written by an earlier session of an equally named table by "
        "renaming the table name inside a pickle of the other table's atom; it is judged only where the "
        "renamed bytes equal the pickle the library itself writes for the restored atom",
        "a formula-parse event that raises or yields other atoms is C01's subject and is not judged here",
        "attributes of the PACKAGE exist for the public table only; a module gets the atoms of any table through "
        "core.define_elements(table, namespace): afterwards every name the docstring promises ('each element ... both by "
        "name and by symbol', plus D, T, deuterium, tritium as the package has them) is that table's atom whatever the "
        "namespace held before (a name that is kept because it was taken is not 'defined'); names in the namespace that "
        "no table knows are not judged; the returned value may be any iterable of strings: it must contain every "
        "documented name, every listed name must exist in the namespace, and a name that newly holds an atom must be "
        "listed (order and duplicates are not judged)",
        "a list (dict, set) that a lookup route hands out belongs to the caller: changing it in place must not "
        "change what the table iterates over or resolves (identity and 'visits isotopes by increasing A exactly "
        "once' are properties of the table, not of what a caller did to a returned value); immutable return "
        "values (tuples) are counted as immune; the table's own `properties` list is not a lookup result",
        "table construction: the library may refuse any name except a fresh, clearly distinct one (a refusal must leave "
        "every live table as it was) and may hand out the existing table for a name in use; whenever a construction "
        "succeeds, the atoms of every table that is still alive - the earlier table of the same name included - must "
        "still be restored to the very same objects; tables are never dropped; whether atoms of distinct tables are "
        "distinct objects is not judged here",
    ],
    level_text=("every atom of the finite tables and every history of first lookups within the depth bound is "
                "executed on the real implementation; identity is decided with `is`, never by equality"),
    level_note=("trusted: CPython's pickle/copy modules, `is` and os.fork as a faithful snapshot of the "
                "interpreter; the list of valid keys is read from the table itself (iteration, el.isotopes, "
                "el.ions) and cross-checked against scans of el[A] and table[Z]; signatures name kind + route "
                "(identity:<kind>:<route>, fields:..., route-raises:..., accepts-invalid:<route>:<class>, "
                "iteration:..., accepts-invalid:<route>:<class of key type>, wrong-object-for-key:<route>:<class>, "
                "identity-/fields-/route-raises-after-first-access-by:<class>:<route>:<what>, "
                "identity-after-table-construction:<class of the last construction that succeeded>:"
                "<restore|lookup>, identity:module-attribute:define_elements:<what the name held before: name-was-free, "
                "name-held-this-atom, name-held-atom-of-another-table, name-held-unrelated-value>, "
                "module-attribute-missing-after-define_elements:<same>, identity:via-module-attribute:<route>, "
                "identity:table-lookup-after-define_elements, define_elements-return:<what>), the exact atom / history is "
                "in the case"),
)

PROTOS = tuple(range(pickle.HIGHEST_PROTOCOL + 1))
# documented aliases (PeriodicTable.symbol / .isotope docstrings): symbol, name, Z, A
DT_ALIASES = (("D", "deuterium", 1, 2), ("T", "tritium", 1, 3))
MIN_Z, MAX_Z = 0, 118          # "all 119 elements" of the property's quantifier

KINDS = ("element", "isotope", "ion", "isotope-ion")
PRIMARY = {"element": "T[Z]", "isotope": "T[Z][A]", "ion": "T[Z].ion[q]", "isotope-ion": "T[Z][A].ion[q]"}
U_PRIMARY = dict((k, v.replace("T[", "U[")) for k, v in PRIMARY.items())
# the same atom of the other table through routes that do not share code with change_table
U_INDEP = {"element": "U.symbol(sym)", "isotope": "U.isotope(key)",
           "ion": "U.symbol(sym).ion[q]", "isotope-ion": "U.isotope(key).ion[q]"}
VARIANTS = ("direct-first", "restore-first", "foreign-first")
# routes that share one mechanism share one signature (the exact route is in the case)
SIG_ROUTE = {"pickle-in-container": "pickle", "deepcopy-in-container": "deepcopy"}

# ------------------------------------------------------------------------------------------------
# keys of other Python types, written as expressions in the valid int key {K} (the name of the variable that
# holds it: Z, A or q).  Judgement class:
#   EQ     numerically equal to K by construction: the lookup raises, or returns the object of the int key
#          (whose field then equals the key numerically)
#   SPELL  a spelling of K that is not a number (text, bytes, a container): raises, or the object of the int key
#   NEQ    numerically different from every valid key of the route: must raise
#   DYN    decided by value: EQ for the valid key it equals, else NEQ (0 is not judged for A and q)
EQ, SPELL, NEQ, DYN = "equal", "spelling", "unequal", "by-value"
ALT_KEYS = (
    ("float-integral", EQ, "float({K})"),
    ("numpy-int", EQ, "np.int64({K})"), ("numpy-int", EQ, "np.int32({K})"), ("numpy-int", EQ, "np.int16({K})"),
    ("numpy-float-integral", EQ, "np.float64({K})"), ("numpy-float-integral", EQ, "np.float32({K})"),
    ("fraction-integral", EQ, "Fraction({K})"), ("decimal-integral", EQ, "Decimal({K})"),
    ("complex-integral", EQ, "complex({K}, 0)"),
    ("numeric-string", SPELL, "str({K})"), ("numeric-string", SPELL, "' ' + str({K})"),
    ("numeric-string", SPELL, "str({K}) + ' '"), ("numeric-string", SPELL, "str({K}) + '.0'"),
    ("numeric-string", SPELL, "'%03d' % {K}"),
    ("bytes", SPELL, "str({K}).encode()"),
    ("tuple", SPELL, "({K},)"), ("list", SPELL, "[{K}]"),
    ("float-fraction", NEQ, "{K} + 0.5"), ("float-fraction", NEQ, "{K} - 0.5"),
    ("float-fraction", NEQ, "{K} + 0.25"), ("float-fraction", NEQ, "{K} - 0.25"),
    ("float-fraction", NEQ, "{K} + 0.9"), ("float-fraction", NEQ, "{K} - 0.9"),
    ("float-one-ulp", NEQ, "math.nextafter({K}, math.inf)"), ("float-one-ulp", NEQ, "math.nextafter({K}, -math.inf)"),
    ("numpy-float-fraction", NEQ, "np.float64({K}) + 0.5"), ("numpy-float-fraction", NEQ, "np.float64({K}) - 0.25"),
    ("numpy-float-fraction", NEQ, "np.float32({K}) + 0.9"), ("numpy-float-fraction", NEQ, "np.float32({K}) - 0.5"),
    ("fraction", NEQ, "Fraction(2*{K} + 1, 2)"), ("fraction", NEQ, "Fraction(4*{K} - 1, 4)"),
    ("decimal", NEQ, "Decimal({K}) + Decimal('0.5')"), ("decimal", NEQ, "Decimal({K}) - Decimal('0.1')"),
    ("complex", NEQ, "complex({K}, 1)"),
    ("fraction-in-string", NEQ, "str({K}) + '.5'"), ("fraction-in-string", NEQ, "str({K}) + '.9'"),
    ("fraction-in-string", NEQ, "repr({K} - 0.25)"),
    ("number-with-suffix", NEQ, "str({K}) + 'x'"),
    ("large-int", DYN, "{K} + 2**8"), ("large-int", DYN, "{K} + 2**16"), ("large-int", DYN, "{K} + 2**32"),
    ("large-int", DYN, "{K} + 2**64"), ("large-int", DYN, "{K} - 2**32"), ("large-int", DYN, "{K} - 2**64"),
    ("negated", DYN, "-{K}"),
)
# keys that are derived from no valid key: once per container (table, element, ion set)
CONST_KEYS = (
    ("none", DYN, "None"), ("nan", DYN, "float('nan')"), ("nan", DYN, "np.float64('nan')"),
    ("infinity", DYN, "float('inf')"), ("infinity", DYN, "-float('inf')"),
    ("empty-string", DYN, "''"), ("empty-string", DYN, "b''"), ("empty-tuple", DYN, "()"),
    ("huge-int", DYN, "10**30"), ("huge-int", DYN, "-10**30"), ("huge-int", DYN, "2**64"), ("huge-int", DYN, "-2**63"),
    ("huge-float", DYN, "1e300"), ("bool", DYN, "True"), ("bool", DYN, "False"), ("negative-zero", DYN, "-0.0"),
)
# route -> (kind of atom, variable of the key, lookup with a hole, lookup with the int key, field, 0 is judged)
ALT_ROUTES = {
    "table[Z]": ("element", "Z", "T[%s]", "T[Z]", "number", True),
    "el[A]": ("isotope", "A", "T[Z][%s]", "T[Z][A]", "isotope", False),
    "ion[q]": ("ion", "q", "T[Z].ion[%s]", "T[Z].ion[q]", "charge", False),
    "isotope.ion[q]": ("isotope-ion", "q", "T[Z][A].ion[%s]", "T[Z][A].ion[q]", "charge", False),
    # on the scratch table S (a private table of its own): add_isotope creates what it does not find
    "add_isotope": ("isotope", "A", "S[Z].add_isotope(%s)", "S[Z][A]", "isotope", False),
}
# key classes that one cause produces together share one signature class (the exact key is in the case)
SIG_KEY = dict([(k, "non-integral-number") for k in ("float-fraction", "float-one-ulp", "numpy-float-fraction",
                                                       "fraction", "decimal")]
               + [(k, "non-integral-text") for k in ("fraction-in-string", "number-with-suffix")]
               + [(k, "other-int") for k in ("large-int", "huge-int", "negated")]
               + [(k, "equal-number") for k in ("float-integral", "numpy-int", "numpy-float-integral", "fraction-integral",
                                                "decimal-integral", "complex-integral", "bool", "negative-zero", "int")]
               + [(k, "spelling") for k in ("numeric-string", "numeric-spelling", "bytes", "tuple", "list", "number",
                                            "isotope-string")])
_PREP = {}


def _prepared(route, const):
    """[(key class, judgement class, lookup expression, key expression, outcome prefix)] of a route"""
    got = _PREP.get((route, const))
    if got is None:
        _, var, hole = ALT_ROUTES[route][:3]
        got = []
        for klass, cls, kexpr in (CONST_KEYS if const else ALT_KEYS + (("int", EQ, "{K}"),) * (route == "add_isotope")):
            k = kexpr.format(K=var)
            got.append((klass, cls, hole % k, k, "altkey:%s:%s:" % (route, klass)))
        _PREP[(route, const)] = got
    return got


def _match(key, valid):
    """the valid int key that `key` equals numerically, or None"""
    if type(key) is int:
        return key if key in valid else None
    if key is None or isinstance(key, (str, bytes, tuple, list)):
        return None
    try:
        for v in valid:
            if key == v:
                return v
    except Exception:
        pass
    return None


def _is_zero(key):
    try:
        return not isinstance(key, (str, bytes, tuple, list, type(None))) and bool(key == 0)
    except Exception:
        return False


def _r(x):
    """repr that survives atoms whose charge / isotope number has an unusual type"""
    try:
        return repr(x)
    except Exception as e:
        return "<%s at %#x; repr raises %s>" % (type(x).__name__, id(x), type(e).__name__)


# the string routes: (route, key class, judgement class, expression); target = the element / the isotope
STR_ELEMENT = (
    ("symbol()", "str-subclass", EQ, "T.symbol(np.str_(sym))"), ("symbol()", "bytes", SPELL, "T.symbol(sym.encode())"),
    ("symbol()", "tuple", SPELL, "T.symbol((sym,))"), ("symbol()", "number", SPELL, "T.symbol(Z)"),
    ("symbol()", "number", SPELL, "T.symbol(float(Z))"), ("symbol()", "numeric-string", SPELL, "T.symbol(str(Z))"),
    ("name()", "str-subclass", EQ, "T.name(np.str_(name))"), ("name()", "bytes", SPELL, "T.name(name.encode())"),
    ("name()", "tuple", SPELL, "T.name((name,))"), ("name()", "number", SPELL, "T.name(Z)"),
    ("name()", "numeric-string", SPELL, "T.name(str(Z))"),
    ("isotope()", "str-subclass", EQ, "T.isotope(np.str_(sym))"), ("isotope()", "bytes", SPELL, "T.isotope(sym.encode())"),
    ("isotope()", "tuple", SPELL, "T.isotope((sym,))"), ("isotope()", "number", SPELL, "T.isotope(Z)"),
    ("isotope()", "numeric-string", SPELL, "T.isotope(str(Z))"),
)
STR_ISOTOPE = (
    ("isotope()", "str-subclass", EQ, "T.isotope(np.str_(key))"), ("isotope()", "bytes", SPELL, "T.isotope(key.encode())"),
    ("isotope()", "tuple", SPELL, "T.isotope((A, sym))"), ("isotope()", "tuple", SPELL, "T.isotope((str(A), sym))"),
    ("isotope()", "numeric-spelling", SPELL, "T.isotope(' ' + key)"), ("isotope()", "numeric-spelling", SPELL, "T.isotope('+' + key)"),
    ("isotope()", "numeric-spelling", SPELL, "T.isotope('0' + key)"),
    ("isotope()", "numeric-spelling", SPELL, "T.isotope('%d.0-%s' % (A, sym))"),
    ("isotope()", "numeric-spelling", SPELL, "T.isotope('%d -%s' % (A, sym))"),
    ("isotope()", "fraction-in-string", NEQ, "T.isotope('%s-%s' % (A + 0.5, sym))"),
    ("isotope()", "fraction-in-string", NEQ, "T.isotope('%s-%s' % (A - 0.25, sym))"),
    ("isotope()", "fraction-in-string", NEQ, "T.isotope('%s-%s' % (A + 0.9, sym))"),
    ("isotope()", "fraction-in-string", NEQ, "T.isotope('%d.5e0-%s' % (A, sym))"),
    ("isotope()", "number-with-suffix", NEQ, "T.isotope('%dx-%s' % (A, sym))"),
    # an 'A-Sym' string is a key of the isotope route only: no atom has it as its symbol or name ("the symbol, name ... of
    # the object match the key used"), so symbol() and name() must raise rather than hand out the isotope
    ("symbol()", "isotope-string", NEQ, "T.symbol(key)"), ("name()", "isotope-string", NEQ, "T.name(key)"),
)
STR_CONST = tuple((route, klass, NEQ, "T.%s(%s)" % (route[:-2], k))
                  for route in ("symbol()", "name()", "isotope()")
                  for klass, k in (("none", "None"), ("nan", "float('nan')"), ("empty-string", "''"),
                                   ("empty-string", "b''"), ("empty-tuple", "()"), ("fraction", "0.5"),
                                   ("huge-int", "10**30")))


# ------------------------------------------------------------------------------------------------
# evaluation of expression strings on the real library
_CODE = {}


def _ev(expr, ns):
    c = _CODE.get(expr)
    if c is None:
        c = _CODE[expr] = compile(expr, "<c08:%s>" % expr, "eval")
    return eval(c, ns)


def _ex(code, ns):
    c = _CODE.get(("x", code))
    if c is None:
        c = _CODE[("x", code)] = compile(code, "<c08-event>", "exec")
    exec(c, ns)


def b36(n, width):
    digits = "0123456789abcdefghijklmnopqrstuvwxyz"
    s = ""
    while n:
        n, r = divmod(n, 36)
        s = digits[r] + s
    s = s.rjust(width, "0")
    if len(s) != width:
        raise MachineryError("table name counter overflow")
    return s


def setup_code(kind, tname, uname):
    """Python source that builds T (table under test) and U (the other table)."""
    lines = ["import pickle, copy, math",
             "import numpy as np",
             "from fractions import Fraction",
             "from decimal import Decimal",
             "import periodictable as pt",
             "from periodictable import core, mass, density, formula",
             "from periodictable.core import change_table",
             "def private(name):",
             "    t = core.PeriodicTable(name); mass.init(t); density.init(t)",
             "    return t"]
    if kind == "public":
        lines += ["T = pt.elements; TNAME = b'public'", "U = private(%r); UNAME = %r" % (uname, uname.encode())]
    elif kind == "private":
        lines += ["T = private(%r); TNAME = %r" % (tname, tname.encode()), "U = pt.elements; UNAME = b'public'"]
    elif kind == "private2":
        lines += ["T = private(%r); TNAME = %r" % (tname, tname.encode()),
                  "U = private(%r); UNAME = %r" % (uname, uname.encode())]
    else:
        raise MachineryError("unknown table kind %r" % kind)
    return "\n".join(lines) + "\n"


def make_env(kind, tname, uname):
    load_pt()
    code = setup_code(kind, tname, uname)
    ns = {}
    try:
        exec(compile(code, "<c08-setup>", "exec"), ns)
    except Exception as e:
        raise MachineryError("cannot build the tables (%s): %s: %s" % (kind, type(e).__name__, e))
    if len(ns["TNAME"]) != len(ns["UNAME"]):
        raise MachineryError("table names must have equal length for the restore-first variant")
    return ns, code


def _raise_body(expr):
    return ["try:", "    r = %s" % expr, "except Exception as e:", "    print('raises', type(e).__name__)",
            "else:", "    raise SystemExit('must raise, but returned %r' % (r,))"]


def _exc(e):
    return "EXC:%s:%s" % (type(e).__name__, str(e)[:120])


# ------------------------------------------------------------------------------------------------
# Part 1: the sweep
class Sweep(object):
    def __init__(self, kind, variant, tname, uname, acc):
        self.kind, self.variant, self.acc = kind, variant, acc
        self.tname, self.uname = tname, uname
        self.xname = "x" + tname[1:]         # scratch table for add_isotope
        self.valid_Z = None
        self.ns, self.setup = make_env(kind, tname, uname)
        self.core = self.ns["core"]
        self.atom_types = (self.core.Element, self.core.Isotope, self.core.Ion)
        self.ids = {}              # id(canonical object) -> (key, object), for the distinctness check
        self.last_case = None
        self.later = []            # atoms of the current element, looked up again when the element is done
        self.valid_syms = None

    # -- reporting
    def case(self, **kw):
        d = dict(part="sweep", table=self.kind, variant=self.variant)
        d.update(kw)
        return d

    def snippet(self, vars_, body):
        keys = [k for k in ("Z", "A", "q", "sym", "name", "key", "proto", "bad") if k in vars_]
        lines = [self.setup.rstrip("\n")]
        for k in keys:
            lines.append("%s = %r" % (k, vars_[k]))
        return "\n".join(lines + body) + "\n"

    def viol(self, sig, case, expected, observed, vars_, body):
        self.acc.violation(sig, case, expected=expected, observed=observed,
                           standalone=self.snippet(vars_, body))

    # -- one atom over all its routes
    def check_atom(self, akind, vars_, routes, casekw, key_fields):
        """routes: list of (label, expr, fields) with fields = ((attr, expected), ...).
        Returns the canonical object or None if the atom is broken."""
        acc, ns = self.acc, self.ns
        ns.update(vars_)
        case = self.case(kind=akind, **casekw)
        acc.states += 1
        ok = True
        pre = None
        # first touch through a foreign route (variants), before the direct lookup
        if self.variant == "restore-first":
            pre = ("unpickle-first",
                   "pickle.loads(pickle.dumps(%s, 2).replace(UNAME, TNAME))" % U_PRIMARY[akind])
        elif self.variant == "foreign-first":
            pre = ("change_table-in", "change_table(%s, T)" % U_PRIMARY[akind])
        y = yerr = None
        if pre is not None:
            acc.transitions += 1
            try:
                y = _ev(pre[1], ns)
            except Exception as e:
                yerr = e
        acc.transitions += 1
        try:
            x0 = _ev(PRIMARY[akind], ns)
        except Exception as e:
            self.viol("route-raises:%s:primary" % akind, case, "the atom", _exc(e), vars_,
                      ["X = %s" % PRIMARY[akind]])
            acc.outcome("sweep:%s:broken" % akind)
            return None
        ns["X"] = x0
        if pre is not None:
            applicable = True
            if self.variant == "restore-first":
                try:
                    applicable = (_ev("pickle.dumps(X, 2)", ns)
                                  == _ev("pickle.dumps(%s, 2).replace(UNAME, TNAME)" % U_PRIMARY[akind], ns))
                except Exception:
                    applicable = False
            if not applicable:
                acc.count("restore_first_not_applicable")
            elif yerr is not None:
                ok = False
                self.viol("route-raises:%s:%s" % (akind, pre[0]), case, "the atom", _exc(yerr), vars_,
                          ["Y = %s" % pre[1]])
            elif y is not x0:
                ok = False
                self.viol("identity:%s:%s" % (akind, pre[0]), case, "one object for the key",
                          "%r (id %#x) first, then %r (id %#x) by direct lookup" % (y, id(y), x0, id(x0)),
                          vars_, ["Y = %s" % pre[1], "X = %s" % PRIMARY[akind],
                                  "print(X is Y, repr(X), repr(Y))", "assert X is Y"])
        for label, expr, fields in routes:
            acc.transitions += 1
            try:
                x = _ev(expr, ns)
            except Exception as e:
                ok = False
                self.viol("route-raises:%s:%s" % (akind, SIG_ROUTE.get(label, label)), dict(case, route=label),
                          "the atom", _exc(e), vars_, ["X = %s" % PRIMARY[akind], "Y = %s" % expr])
                continue
            if x is not x0:
                ok = False
                self.viol("identity:%s:%s" % (akind, SIG_ROUTE.get(label, label)), dict(case, route=label),
                          "the same object as %s" % PRIMARY[akind],
                          "%r (id %#x) is not %r (id %#x)" % (x, id(x), x0, id(x0)), vars_,
                          ["X = %s" % PRIMARY[akind], "Y = %s" % expr,
                           "print(X is Y, repr(X), repr(Y))", "assert X is Y"])
                continue          # key fields are judged on the right object only
            for attr, want in fields:
                try:
                    got = getattr(x, attr)
                except Exception as e:
                    got = _exc(e)
                if got != want:
                    ok = False
                    self.viol("fields:%s:%s:%s" % (akind, SIG_ROUTE.get(label, label), attr), dict(case, route=label),
                              "%s == %r" % (attr, want), repr(got), vars_,
                              ["Y = %s" % expr, "print(repr(Y), repr(Y.%s))" % attr,
                               "assert Y.%s == %r" % (attr, want)])
        self.check_moved(akind, vars_, casekw, key_fields)
        acc.nontrivial += 1
        acc.outcome("sweep:%s:%s" % (akind, "same-object" if ok else "VIOLATION"))
        # the object is kept alive here, so that ids stay unique and the later re-lookup is meaningful
        other = self.ids.setdefault(id(x0), (casekw, x0))
        if other[0] is not casekw:
            self.viol("distinct-keys-share-object:%s" % akind, case, "distinct objects for distinct keys",
                      "%r is also the object of %r" % (x0, other[0]), vars_,
                      ["X = %s" % PRIMARY[akind], "print(repr(X))"])
        self.later.append((akind, vars_, casekw, x0))
        self.last_case = dict(case, routes_compared=len(routes) + 3 + (pre is not None))
        return x0 if ok else None

    def common_routes(self, akind, key_fields):
        r = [("again", PRIMARY[akind], key_fields)]
        for p in PROTOS:
            r.append(("pickle", "pickle.loads(pickle.dumps(X, %d))" % p, key_fields))
        r.append(("copy", "copy.copy(X)", key_fields))
        r.append(("deepcopy", "copy.deepcopy(X)", key_fields))
        r.append(("deepcopy-in-container", "copy.deepcopy({'a': [X, X]})['a'][1]", key_fields))
        r.append(("pickle-in-container", "pickle.loads(pickle.dumps((X, [X])))[1][0]", key_fields))
        return r

    def check_moved(self, akind, vars_, casekw, key_fields):
        """change_table(X, U) is U's atom with the same Z, A, charge."""
        acc, ns = self.acc, self.ns
        case = self.case(kind=akind, route="change_table-forward", **casekw)
        acc.transitions += 2
        body = ["X = %s" % PRIMARY[akind], "Y = change_table(X, U)", "W = %s" % U_INDEP[akind],
                "print(Y is W, repr(Y), repr(W))", "assert Y is W"]
        try:
            y = _ev("change_table(X, U)", ns)
        except Exception as e:
            return self.viol("route-raises:%s:change_table-forward" % akind, case, "the atom of the other table",
                             _exc(e), vars_, body)
        try:
            w = _ev(U_INDEP[akind], ns)
        except Exception as e:
            return self.viol("route-raises:%s:other-table-lookup" % akind, case, "the atom of the other table",
                             _exc(e), vars_, body)
        if y is not w:
            return self.viol("identity:%s:change_table-forward" % akind, case,
                             "%s of the other table" % U_INDEP[akind],
                             "%r (id %#x) is not %r (id %#x)" % (y, id(y), w, id(w)), vars_, body)
        acc.transitions += 1
        ns["Y"] = y
        case_b = dict(case, route="change_table-back")
        body_b = ["X = %s" % PRIMARY[akind], "Y = change_table(X, U)", "B = change_table(Y, T)",
                  "print(B is X, repr(B), repr(X))", "assert B is X"]
        try:
            back = _ev("change_table(Y, T)", ns)
        except Exception as e:
            back = None
            self.viol("route-raises:%s:change_table-back" % akind, case_b, "the atom", _exc(e), vars_, body_b)
        else:
            if back is not ns["X"]:
                self.viol("identity:%s:change_table-back" % akind, case_b, "the atom that was moved",
                          "%r (id %#x) is not %r (id %#x)" % (back, id(back), ns["X"], id(ns["X"])), vars_, body_b)
        for attr, want in key_fields:
            try:
                got = getattr(y, attr)
            except Exception as e:
                got = _exc(e)
            if got != want:
                self.viol("fields:%s:change_table-forward:%s" % (akind, attr), case, "%s == %r" % (attr, want),
                          repr(got), vars_, body[:2] + ["print(repr(Y), repr(Y.%s))" % attr])

    # -- invalid neighbours
    def must_raise(self, route, klass, expr, vars_, casekw, atom_only=False):
        """expr must raise; atom_only: returning something that is not an atom is acceptable too."""
        acc, ns = self.acc, self.ns
        ns.update(vars_)
        acc.states += 1
        acc.transitions += 1
        acc.nontrivial += 1
        acc.count("invalid_neighbours")
        try:
            x = _ev(expr, ns)
        except Exception as e:
            acc.outcome("invalid:%s:%s:raises-%s" % (route, klass, type(e).__name__))
            return
        if atom_only and not isinstance(x, self.atom_types):
            acc.outcome("invalid:%s:%s:not-an-atom" % (route, klass))
            return
        acc.outcome("invalid:%s:%s:VIOLATION" % (route, klass))
        self.viol("accepts-invalid:%s:%s" % (route, klass), self.case(invalid=klass, route=route, **casekw),
                  "an exception", "returned %r" % (x,), vars_,
                  _raise_body(expr))

    # -- keys of other Python types next to a valid key (or, const=True, keys that belong to no valid key)
    def alt_keys(self, route, vars_, casekw, valid, const=False, originals=None):
        """`valid`: the valid int keys of the container; `originals` (add_isotope only): id -> isotope of the
        scratch element before any key was tried."""
        akind, var, hole, canon, attr, zero_judged = ALT_ROUTES[route]
        acc, ns = self.acc, self.ns
        ns.update(vars_)
        x0 = None
        if not const:
            try:
                x0 = _ev(canon, ns)
            except Exception:
                return              # reported by check_atom
        n = 0
        for klass, cls, expr, kexpr, pre in _prepared(route, const):
            target, canon_txt = x0, canon
            if cls is DYN:
                try:
                    key = _ev(kexpr, ns)
                except Exception as e:
                    raise MachineryError("C08 key %s cannot be built: %r" % (kexpr, e))
                t = _match(key, valid)
                if t is None:
                    if not zero_judged and _is_zero(key):
                        continue
                    cls = NEQ
                else:
                    cls = EQ
                    canon_txt = hole % repr(t)           # the int key that equals the key
                    try:
                        target = _ev(canon, dict(ns, **{var: t}))
                    except Exception:
                        continue    # reported by check_atom
            n += 1
            try:
                x = _ev(expr, ns)
            except Exception as e:
                acc.outcome(pre + "raises-" + type(e).__name__)
                continue
            case = self.case(route=route, key=kexpr, key_class=klass, **casekw)
            if originals is not None and cls is not EQ and id(x) not in originals:
                acc.outcome(pre + "created")              # add_isotope made a new isotope under the key
                continue
            if cls is NEQ:
                acc.outcome(pre + "VIOLATION")
                body = _raise_body(expr)
                if originals is not None:
                    body = ["before = list(S[Z])", "try:", "    r = %s" % expr, "except Exception as e:",
                            "    print('raises', type(e).__name__)", "else:",
                            "    assert not any(r is i for i in before), 'returned the existing isotope %r for a key "
                            "that is not its number' % (r,)", "    print('created', repr(r))"]
                self.viol("accepts-invalid:%s:%s" % (route, "other-int" if klass == "bool" else SIG_KEY.get(klass, klass)), case,
                          "an exception" if originals is None else "an exception or a new isotope",
                          "returned %s" % _r(x), vars_, body)
                continue
            if x is not target:
                acc.outcome(pre + "VIOLATION")
                self.viol("wrong-object-for-key:%s:%s" % (route, SIG_KEY.get(klass, klass)), case,
                          "an exception or the object of the int key, %s" % _r(target),
                          "%s (id %#x)" % (_r(x), id(x)), vars_,
                          ["X = %s" % canon_txt, "Y = %s" % expr, "print(X is Y, repr(X), repr(Y))", "assert X is Y"])
                continue
            if cls is EQ:
                try:
                    got = getattr(x, attr)
                    same = bool(got == _ev(kexpr, ns))
                except Exception as e:
                    got, same = _exc(e), False
                if not same:
                    acc.outcome(pre + "VIOLATION")
                    self.viol("fields:%s:%s:%s" % (akind, route, attr), case, "%s == %s" % (attr, kexpr), _r(got), vars_,
                              ["Y = %s" % expr, "print(repr(Y), repr(Y.%s))" % attr, "assert Y.%s == %s" % (attr, kexpr)])
                    continue
            acc.outcome(pre + "same-object")
        acc.states += n
        acc.transitions += n
        acc.nontrivial += n
        acc.count("other_type_keys", n)

    def alt_strings(self, table, vars_, casekw, canon):
        """the string routes with keys of other types / other spellings; target = `canon` (None: must raise)"""
        acc, ns = self.acc, self.ns
        ns.update(vars_)
        target = None
        if canon is not None:
            try:
                target = _ev(canon, ns)
            except Exception:
                return
        for route, klass, cls, expr in table:
            acc.states += 1
            acc.transitions += 1
            acc.nontrivial += 1
            pre = "altkey:%s:%s:" % (route, klass)
            try:
                x = _ev(expr, ns)
            except Exception as e:
                acc.outcome(pre + "raises-" + type(e).__name__)
                continue
            case = self.case(route=route, key=expr, key_class=klass, **casekw)
            if cls is NEQ:
                acc.outcome(pre + "VIOLATION")
                self.viol("accepts-invalid:%s:%s" % (route, SIG_KEY.get(klass, klass)), case, "an exception", "returned %s" % _r(x),
                          vars_, _raise_body(expr))
            elif x is not target:
                acc.outcome(pre + "VIOLATION")
                self.viol("wrong-object-for-key:%s:%s" % (route, SIG_KEY.get(klass, klass)), case,
                          "an exception or %s" % _r(target), "%s (id %#x)" % (_r(x), id(x)), vars_,
                          ["X = %s" % canon, "Y = %s" % expr, "print(X is Y, repr(X), repr(Y))", "assert X is Y"])
            else:
                acc.outcome(pre + "same-object")
        acc.count("other_type_keys", len(table))

    def other_type_keys(self, Z, sym, name, ev, it_numbers, ions):
        """Part 1b for the element Z: every route x every valid key x every key of another type."""
        ns = self.ns
        validA, validq = set(it_numbers), set(ions)
        if self.valid_Z is None:
            self.valid_Z = set(e.number for e in ns["T"])
        self.alt_keys("table[Z]", ev, dict(Z=Z), self.valid_Z)
        self.alt_strings(STR_ELEMENT, ev, dict(Z=Z), "T[Z]")
        self.alt_keys("el[A]", ev, dict(Z=Z), validA, const=True)
        self.alt_keys("ion[q]", ev, dict(Z=Z), validq, const=True)
        for q in ions:
            self.alt_keys("ion[q]", dict(ev, q=q), dict(Z=Z, q=q), validq)
        for A in it_numbers:
            iv = dict(ev, A=A, key="%d-%s" % (A, sym))
            self.alt_keys("el[A]", iv, dict(Z=Z, A=A), validA)
            self.alt_strings(STR_ISOTOPE, iv, dict(Z=Z, A=A), "T[Z][A]")
            self.alt_keys("isotope.ion[q]", iv, dict(Z=Z, A=A), validq, const=True)
            for q in ions:
                self.alt_keys("isotope.ion[q]", dict(iv, q=q), dict(Z=Z, A=A, q=q), validq)
        # add_isotope hands out the existing isotope for an existing number - on a scratch table, because it
        # creates an isotope for every other key
        if "S" not in ns:
            try:
                _ex("S = private(%r)" % self.xname, ns)
            except Exception as e:
                raise MachineryError("cannot build the scratch table %r: %r" % (self.xname, e))
            self.setup += "S = private(%r)       # scratch table: add_isotope creates what it does not find\n" % self.xname
        try:
            xs = list(ns["S"][Z])
        except Exception as e:
            raise MachineryError("scratch table: %r" % e)
        if [i.isotope for i in xs] != list(it_numbers):
            self.acc.count("scratch_table_differs")
            return
        originals = dict((id(i), i) for i in xs)
        self.alt_keys("add_isotope", ev, dict(Z=Z), validA, const=True, originals=originals)
        for A in it_numbers:
            self.alt_keys("add_isotope", dict(ev, A=A), dict(Z=Z, A=A), validA, originals=originals)
        for A, iso in zip(it_numbers, xs):
            self.acc.transitions += 1
            try:
                now = _ev("S[Z][A]", dict(ns, A=A))
            except Exception as e:
                now = _exc(e)
            if now is not iso:
                self.viol("identity:isotope:after-add_isotope", self.case(kind="isotope", route="add_isotope", Z=Z, A=A),
                          "the isotope that existed before add_isotope was called with keys of other types",
                          "%s is not %s (id %#x)" % (_r(now), _r(iso), id(iso)), dict(ev, A=A),
                          ["X0 = S[Z][A]", "for k in (float(A), np.int64(A), str(A), A + 0.5): S[Z].add_isotope(k)",
                           "print(S[Z][A] is X0)", "assert S[Z][A] is X0"])
                break

    # -- the element Z with all its isotopes and ions
    def element(self, Z):
        acc, ns = self.acc, self.ns
        public = self.kind == "public"
        ns.update(Z=Z)
        try:
            el = _ev("T[Z]", ns)
            sym, name = el.symbol, el.name
            ions = tuple(el.ions)
            listed = list(el.isotopes)
        except Exception as e:
            self.viol("route-raises:element:primary", self.case(kind="element", Z=Z), "the element", _exc(e),
                      dict(Z=Z), ["X = T[Z]", "print(X.symbol, X.name, X.ions, X.isotopes)"])
            return
        if not (isinstance(sym, str) and isinstance(name, str)):
            raise MachineryError("symbol/name of element %d are not strings" % Z)
        if self.valid_syms is None:
            self.table_keys()
        ev = dict(Z=Z, sym=sym, name=name)
        fs, fn, fz = (("symbol", sym),), (("name", name),), (("number", Z),)
        routes = [("attr", "getattr(T, sym)", fs), ("symbol()", "T.symbol(sym)", fs),
                  ("name()", "T.name(name)", fn), ("isotope(sym)", "T.isotope(sym)", fs)]
        if public:
            routes += [("module.symbol", "getattr(pt, sym)", fs), ("module.name", "getattr(pt, name)", fn)]
        routes += self.common_routes("element", fz)
        self.check_atom("element", ev, routes, dict(Z=Z), fz)
        self.element_neighbours(Z, sym, name, ev)

        # isotopes: iteration strictly increasing, identical to el[A], consistent with a key scan
        acc.transitions += 1
        try:
            it = list(_ev("list(T[Z])", ns))
            it_numbers = [i.isotope for i in it]
        except Exception as e:
            self.viol("iteration:isotopes:raises", self.case(kind="isotope", Z=Z), "isotopes in order", _exc(e),
                      ev, ["print(list(T[Z]))"])
            it, it_numbers = [], []
        if any(b <= a for a, b in zip(it_numbers, it_numbers[1:])):
            self.viol("iteration:isotopes:order", self.case(kind="isotope", Z=Z), "strictly increasing A",
                      repr(it_numbers), ev, ["print([i.isotope for i in T[Z]])"])
        if it_numbers != listed:
            self.viol("iteration:isotopes:differs-from-isotopes-list", self.case(kind="isotope", Z=Z),
                      "iteration visits el.isotopes", "%r vs %r" % (it_numbers, listed), ev,
                      ["print([i.isotope for i in T[Z]], T[Z].isotopes)"])
        valid = set(it_numbers)
        top = max(it_numbers + [0]) + 3
        for A in range(1, top):
            if A in valid:
                continue
            ns.update(A=A)
            acc.transitions += 1
            try:
                x = _ev("T[Z][A]", ns)
            except Exception as e:
                if (A - 1 in valid) or (A + 1 in valid) or not valid:
                    self.count_invalid("el[A]", "A-undefined", e)
                continue
            got = getattr(x, "isotope", None)
            if got == A:
                self.viol("iteration:isotopes:missing", self.case(kind="isotope", Z=Z, A=A),
                          "iteration visits every isotope that el[A] returns", "%r not in %r" % (A, it_numbers),
                          dict(ev, A=A), ["print(repr(T[Z][A]), [i.isotope for i in T[Z]])"])
            else:
                acc.outcome("invalid:el[A]:A-undefined:VIOLATION")
                self.viol("accepts-invalid:el[A]:A-undefined", self.case(invalid="A-undefined", route="el[A]", Z=Z, A=A),
                          "an exception", "returned %r" % (x,), dict(ev, A=A),
                          _raise_body("T[Z][A]"))
        invalid_A = sorted(a for a in set([A - 1 for A in valid] + [A + 1 for A in valid] + ([1] if not valid else []))
                           if a >= 1 and a not in valid)
        invalid_q = sorted(c for c in set([c - 1 for c in ions] + [c + 1 for c in ions] + [-1, 1])
                           if c != 0 and c not in ions)

        # element ions
        for q in ions:
            fq = (("charge", q), ("number", Z))
            r = [("via-symbol()", "T.symbol(sym).ion[q]", fq)] + self.common_routes("ion", fq)
            self.check_atom("ion", dict(ev, q=q), r, dict(Z=Z, q=q), fq)
        for q in invalid_q:
            for rep in ("first", "repeated"):
                self.must_raise("ion[q]", "charge-undefined", "T[Z].ion[q]", dict(ev, q=q), dict(Z=Z, q=q))

        # isotopes and isotope ions
        for pos, A in enumerate(it_numbers):
            key = "%d-%s" % (A, sym)
            iv = dict(ev, A=A, key=key)
            alias = [a for a in DT_ALIASES if (a[2], a[3]) == (Z, A)]
            fa = (("isotope", A), ("number", Z))
            fsym = fa if alias else fa + (("symbol", sym),)
            routes = [("isotope(A-sym)", "T.isotope(key)", fsym), ("via-attr", "getattr(T, sym)[A]", fa),
                      ("iteration", "list(T[Z])[%d]" % pos, fa)]
            for asym, aname, _, _ in alias:
                f1 = fa + (("symbol", asym),)
                f2 = fa + (("name", aname),)
                routes += [("alias-attr", "getattr(T, %r)" % asym, f1), ("alias-symbol()", "T.symbol(%r)" % asym, f1),
                           ("alias-name()", "T.name(%r)" % aname, f2), ("alias-isotope()", "T.isotope(%r)" % asym, f1)]
                if public:
                    routes += [("alias-module.symbol", "getattr(pt, %r)" % asym, f1),
                               ("alias-module.name", "getattr(pt, %r)" % aname, f2)]
            routes += self.common_routes("isotope", fa)
            self.check_atom("isotope", iv, routes, dict(Z=Z, A=A), fa)
            for q in ions:
                fq = (("charge", q), ("isotope", A), ("number", Z))
                r = [("via-isotope()", "T.isotope(key).ion[q]", fq)] + self.common_routes("isotope-ion", fq)
                self.check_atom("isotope-ion", dict(iv, q=q), r, dict(Z=Z, A=A, q=q), fq)
            for q in invalid_q:
                self.must_raise("isotope.ion[q]", "charge-undefined", "T[Z][A].ion[q]", dict(iv, q=q),
                                dict(Z=Z, A=A, q=q))

        # every atom of the element once more, after all the others have been created and looked up
        later, self.later = self.later, []
        for akind, vars_, casekw, x0 in later:
            ns.update(vars_)
            acc.transitions += 1
            try:
                x = _ev(PRIMARY[akind], ns)
            except Exception as e:
                x = _exc(e)
            if x is not x0:
                self.viol("identity:%s:later-lookup" % akind, self.case(kind=akind, route="later-lookup", **casekw),
                          "the object that the same lookup returned before the other atoms of the element "
                          "were looked up", "%r (id %#x) is not %r (id %#x)" % (x, id(x), x0, id(x0)), vars_,
                          ["X = %s" % PRIMARY[akind],
                           "for el in [T[Z]] + list(T[Z]):",
                           "    for c in el.ions: el.ion[c]",
                           "Y = %s" % PRIMARY[akind], "print(X is Y, repr(X), repr(Y))", "assert X is Y"])

        # keys of other Python types next to every valid key of every route
        self.other_type_keys(Z, sym, name, ev, it_numbers, ions)

        # invalid isotope keys
        A0 = it_numbers[0] if it_numbers else 1
        for A in invalid_A:
            self.must_raise("isotope()", "A-undefined", "T.isotope(bad)", dict(ev, bad="%d-%s" % (A, sym)), dict(Z=Z))
        bads = [("non-numeric", "x-%s" % sym), ("three-parts", "%d-%d-%s" % (A0, A0, sym)),
                ("trailing-space", "%d-%s " % (A0, sym)), ("reversed", "%s-%d" % (sym, A0)),
                ("empty-number", "-%s" % sym), ("empty-symbol", "%d-" % A0), ("no-dash", "%d%s" % (A0, sym)),
                ("negative", "-%d-%s" % (A0, sym))]
        for v in self.case_variants(sym):
            bads.append(("case-changed", "%d-%s" % (A0, v)))
        for klass, bad in bads:
            self.must_raise("isotope()", klass, "T.isotope(bad)", dict(ev, bad=bad), dict(Z=Z))

        # last (it may break the element): the caller mutates the containers it was handed
        self.container_mutations(Z, sym, ev, it, it_numbers, ions)

    # -- containers handed to the caller (lists of isotope numbers, charge tuples) are the caller's own
    def container_mutations(self, Z, sym, ev, it, it_numbers, ions):
        """Every route that hands out a container x every in-place mutation its type allows; afterwards
        iteration, the isotopes list, el[A], 'A-Sym' lookups, ions and invalid neighbours are as before."""
        acc, ns = self.acc, self.ns
        try:
            ion_objs = [(q, _ev("T[Z].ion[q]", dict(ns, Z=Z, q=q))) for q in ions]
        except Exception:
            return          # reported by check_atom
        bogus_A = max(it_numbers + [0]) + 7
        bogus_q = max(tuple(ions) + (0,)) + 7
        routes = [("el.isotopes", "T[Z].isotopes", "isotopes", bogus_A), ("el.ions", "T[Z].ions", "ions", bogus_q),
                  ("symbol().isotopes", "T.symbol(sym).isotopes", "isotopes", bogus_A)]
        if it_numbers:
            ns.update(A=it_numbers[0])
            routes += [("isotope.isotopes", "T[Z][A].isotopes", "isotopes", bogus_A),
                       ("isotope.ions", "T[Z][A].ions", "ions", bogus_q)]
        if ions:
            ns.update(q=ions[0])
            routes += [("ion.isotopes", "T[Z].ion[q].isotopes", "isotopes", bogus_A),
                       ("ion.ions", "T[Z].ion[q].ions", "ions", bogus_q)]
        vars_ = dict(ev)
        if it_numbers:
            vars_["A"] = it_numbers[0]
        if ions:
            vars_["q"] = ions[0]

        def state_ok():
            """None, or (what, expected, observed)"""
            T = ns["T"]
            el = T[Z]
            n = 0
            try:
                now = list(el)
                n += 1
                if len(now) != len(it) or any(a is not b for a, b in zip(now, it)):
                    return n, ("iteration", it_numbers, [getattr(i, "isotope", i) for i in now])
                lst = list(el.isotopes)
                n += 1
                if lst != it_numbers:
                    return n, ("isotopes-list", it_numbers, lst)
                for A, iso in zip(it_numbers, it):
                    n += 2
                    if el[A] is not iso:
                        return n, ("el[A]", repr(iso), repr(el[A]))
                    key = "%d-%s" % (A, sym)
                    try:
                        got = T.isotope(key)
                    except Exception as e:
                        got = _exc(e)
                    if got is not iso:
                        return n, ("isotope('A-Sym')", "%r for %r" % (iso, key), repr(got))
                for bad, look in (("%d-%s" % (bogus_A, sym), T.isotope), (bogus_A, el.__getitem__),
                                  (bogus_q, el.ion.__getitem__)):
                    n += 1
                    try:
                        got = look(bad)
                    except Exception:
                        continue
                    return n, ("invalid-key-accepted", "an exception for %r" % (bad,), repr(got))
                n += 1
                if tuple(el.ions) != tuple(ions):
                    return n, ("ions", tuple(ions), tuple(el.ions))
                for q, obj in ion_objs:
                    n += 1
                    if el.ion[q] is not obj:
                        return n, ("ion[q]", repr(obj), repr(el.ion[q]))
            except Exception as e:
                return n, ("raises", "the lookups of before", _exc(e))
            return n, None

        for label, expr, attr, bogus in routes:
            ns["BOGUS"] = bogus
            try:
                c0 = _ev(expr, ns)
            except Exception as e:
                self.viol("route-raises:container:%s" % attr, self.case(kind="container", Z=Z, route=label),
                          "a container", _exc(e), vars_, ["C = %s" % expr])
                return
            if isinstance(c0, list):
                ops = [("append-bogus", "C.append(BOGUS)"), ("insert-bogus", "C.insert(0, BOGUS)")]
                if c0:
                    ops = [("reverse", "C.reverse()"), ("sort-descending", "C.sort(reverse=True)"),
                           ("pop-first", "C.pop(0)"), ("pop-last", "C.pop()"), ("overwrite-first", "C[0] = BOGUS"),
                           ("clear", "del C[:]")] + ops
                tname = "list"
            elif isinstance(c0, dict):
                ops = [("add-bogus", "C[BOGUS] = None")] + ([("pop-item", "C.popitem()"), ("clear", "C.clear()")] if c0 else [])
                tname = "dict"
            elif isinstance(c0, set):
                ops = [("add-bogus", "C.add(BOGUS)")] + ([("pop", "C.pop()"), ("clear", "C.clear()")] if c0 else [])
                tname = "set"
            elif hasattr(c0, "__next__"):
                ops = [("consume", "list(C)")]
                tname = "iterator"
            else:
                acc.states += 1
                acc.outcome("container:%s:%s:immutable" % (attr, type(c0).__name__))
                continue
            for op, code in ops:
                acc.states += 1
                acc.nontrivial += 1
                body = ["el = T[Z]", "isos = list(el); numbers = list(el.isotopes); charges = tuple(el.ions)",
                        "BOGUS = %r" % bogus, "C = %s      # the caller's container" % expr, code,
                        "print([i.isotope for i in el], el.isotopes, el.ions)",
                        "assert all(a is b for a, b in zip(list(el), isos)) and len(list(el)) == len(isos)",
                        "assert list(el.isotopes) == numbers and tuple(el.ions) == charges",
                        "for i in isos: assert T.isotope('%d-%s' % (i.isotope, sym)) is i and el[i.isotope] is i"]
                try:
                    ns["C"] = _ev(expr, ns)
                    _ex(code, ns)
                except Exception as e:
                    raise MachineryError("C08 container mutation %s on %s failed: %r" % (op, label, e))
                finally:
                    ns.pop("C", None)
                n, bad = state_ok()
                acc.transitions += n + 2
                if bad is None:
                    acc.outcome("container:%s:%s:%s:table-unaffected" % (attr, tname, op))
                    continue
                acc.outcome("container:%s:%s:VIOLATION" % (attr, tname))
                self.viol("returned-container-aliases-table-state:%s" % attr,
                          self.case(kind="container", Z=Z, route=label, mutation=op, broken=bad[0]),
                          "%s as before the caller changed its own %s: %s" % (bad[0], tname, bad[1]), str(bad[2])[:300],
                          vars_, body)
                return          # the element is broken now: nothing is explored beyond

    def count_invalid(self, route, klass, e):
        acc = self.acc
        acc.states += 1
        acc.nontrivial += 1
        acc.count("invalid_neighbours")
        acc.outcome("invalid:%s:%s:raises-%s" % (route, klass, type(e).__name__))

    def table_keys(self):
        """valid symbols and names of the table (to exclude neighbours that are valid keys themselves)"""
        syms, names = set(), set()
        for Z in range(MIN_Z, MAX_Z + 1):
            try:
                e = self.ns["T"][Z]
                syms.add(e.symbol); names.add(e.name)
            except Exception:
                pass
        for asym, aname, _, _ in DT_ALIASES:
            syms.add(asym); names.add(aname)
        self.valid_syms, self.valid_names = syms, names

    def case_variants(self, sym):
        out = []
        for v in (sym.lower(), sym.upper(), sym.swapcase()):
            if v != sym and v not in self.valid_syms and v not in self.valid_names and v not in out:
                out.append(v)
        return out

    def element_neighbours(self, Z, sym, name, ev):
        public = self.kind == "public"
        for v in self.case_variants(sym):
            self.must_raise("symbol()", "case-changed", "T.symbol(bad)", dict(ev, bad=v), dict(Z=Z))
            self.must_raise("attr", "case-changed", "getattr(T, bad)", dict(ev, bad=v), dict(Z=Z), atom_only=True)
            if public:
                self.must_raise("module", "case-changed-symbol", "getattr(pt, bad)", dict(ev, bad=v), dict(Z=Z),
                                atom_only=True)
        for klass, v in (("trailing-space", sym + " "), ("leading-space", " " + sym)):
            self.must_raise("symbol()", klass, "T.symbol(bad)", dict(ev, bad=v), dict(Z=Z))
        nv = []
        for klass, v in (("capitalised", name.capitalize()), ("upper-case", name.upper()),
                         ("trailing-space", name + " "), ("symbol-as-name", sym)):
            if v != name and v not in self.valid_names and v not in nv:
                nv.append(v)
                self.must_raise("name()", klass, "T.name(bad)", dict(ev, bad=v), dict(Z=Z))
                if public and klass != "symbol-as-name" and v not in self.valid_syms:
                    self.must_raise("module", klass + "-name", "getattr(pt, bad)", dict(ev, bad=v), dict(Z=Z),
                                    atom_only=True)
        if name not in self.valid_syms:
            self.must_raise("symbol()", "name-as-symbol", "T.symbol(bad)", dict(ev, bad=name), dict(Z=Z))

    # -- table-wide checks (run once per table configuration)
    def table_wide(self):
        acc, ns = self.acc, self.ns
        case = self.case(kind="element", table_wide=True)
        self.table_keys()
        acc.transitions += 1
        acc.states += 1
        acc.nontrivial += 1
        try:
            it = _ev("list(T)", ns)
            numbers = [e.number for e in it]
        except Exception as e:
            self.viol("iteration:elements:raises", case, "elements in order", _exc(e), {}, ["print(list(T))"])
            return
        if any(b <= a for a, b in zip(numbers, numbers[1:])):
            self.viol("iteration:elements:order", case, "strictly increasing Z", repr(numbers), {},
                      ["print([e.number for e in T])"])
        acc.outcome("iteration:elements:%d" % len(numbers))
        top = max(numbers + [MAX_Z]) + 3
        for Z in range(-2, top):
            ns.update(Z=Z)
            acc.transitions += 1
            try:
                x = _ev("T[Z]", ns)
            except Exception as e:
                if MIN_Z <= Z <= MAX_Z:
                    self.viol("route-raises:element:primary", self.case(kind="element", Z=Z), "the element", _exc(e),
                              dict(Z=Z), ["X = T[Z]"])
                elif Z in (MIN_Z - 1, max(numbers + [MAX_Z]) + 1):
                    self.count_invalid("table[Z]", "Z-out-of-range", e)
                if Z in numbers:
                    self.viol("iteration:elements:visits-unknown", self.case(kind="element", Z=Z),
                              "iterated elements can be looked up", _exc(e), dict(Z=Z), ["X = T[Z]"])
                continue
            if Z not in numbers:
                if getattr(x, "number", None) == Z and Z >= 0:
                    self.viol("iteration:elements:missing", self.case(kind="element", Z=Z),
                              "iteration visits every element", "%d not in %r" % (Z, numbers), dict(Z=Z),
                              ["print(repr(T[Z]), [e.number for e in T])"])
                else:
                    acc.outcome("invalid:table[Z]:Z-out-of-range:VIOLATION")
                    self.viol("accepts-invalid:table[Z]:Z-out-of-range",
                              self.case(invalid="Z-out-of-range", route="table[Z]", Z=Z), "an exception",
                              "returned %r" % (x,), dict(Z=Z), _raise_body("T[Z]"))
            elif x is not it[numbers.index(Z)]:
                self.viol("identity:element:iteration", self.case(kind="element", Z=Z, route="iteration"),
                          "the same object as T[Z]", "%r is not %r" % (it[numbers.index(Z)], x), dict(Z=Z),
                          ["X = T[Z]", "Y = [e for e in T if e.number == Z][0]", "assert X is Y"])
        # attribute names of the table object are not symbols (nor names, nor isotope strings)
        try:
            attrs = sorted(dir(ns["T"]))
        except Exception as e:
            raise MachineryError("dir(table) failed: %r" % e)
        for nm in attrs:
            if nm in self.valid_syms or nm in self.valid_names:
                continue
            klass = "dunder-attribute" if nm.startswith("__") else "table-attribute"
            self.must_raise("symbol()", klass, "T.symbol(bad)", dict(bad=nm), dict(table_wide=True))
            self.must_raise("isotope()", klass, "T.isotope(bad)", dict(bad=nm), dict(table_wide=True))
            self.must_raise("isotope()", klass + "-numbered", "T.isotope(bad)", dict(bad="1-" + nm),
                            dict(table_wide=True))
            self.must_raise("name()", klass, "T.name(bad)", dict(bad=nm), dict(table_wide=True))
        # keys of other types that belong to no element; the aliases under other string types
        self.alt_keys("table[Z]", {}, dict(table_wide=True), set(numbers), const=True)
        self.alt_strings(STR_CONST, {}, dict(table_wide=True), None)
        for asym, aname, Z, A in DT_ALIASES:
            self.alt_strings((("symbol()", "str-subclass", EQ, "T.symbol(np.str_(%r))" % asym),
                              ("symbol()", "bytes", SPELL, "T.symbol(%r)" % asym.encode()),
                              ("name()", "str-subclass", EQ, "T.name(np.str_(%r))" % aname),
                              ("name()", "bytes", SPELL, "T.name(%r)" % aname.encode()),
                              ("isotope()", "str-subclass", EQ, "T.isotope(np.str_(%r))" % asym),
                              ("isotope()", "bytes", SPELL, "T.isotope(%r)" % asym.encode())),
                             dict(Z=Z, A=A), dict(table_wide=True, Z=Z, A=A), "T[Z][A]")
        # D and T take no isotope number
        for asym, aname, Z, A in DT_ALIASES:
            for n in (1, 2, 3, 4):
                self.must_raise("isotope()", "alias-with-number", "T.isotope(bad)", dict(bad="%d-%s" % (n, asym)),
                                dict(table_wide=True))
            for v in (asym.lower(), aname.capitalize(), aname.upper(), asym + " "):
                if v not in self.valid_syms and v not in self.valid_names:
                    self.must_raise("symbol()", "alias-changed", "T.symbol(bad)", dict(bad=v), dict(table_wide=True))
                    self.must_raise("name()", "alias-changed", "T.name(bad)", dict(bad=v), dict(table_wide=True))
                    self.must_raise("isotope()", "alias-changed", "T.isotope(bad)", dict(bad=v), dict(table_wide=True))


def _sweep_shard(args):
    kind, variant, zs, table_wide, idx = args
    gc.disable()
    acc = Acc()
    sw = Sweep(kind, variant, "s" + b36(idx, 5), "r" + b36(idx, 5), acc)
    if table_wide:
        sw.table_wide()
    for Z in zs:
        sw.element(Z)
    acc.traces = acc.evaluations = acc.transitions      # every route evaluation runs the real code
    acc.count("sweep_atoms_%s" % kind, len(sw.ids))
    if table_wide and sw.last_case is not None:
        acc.sample(sw.last_case)
    return acc


# ------------------------------------------------------------------------------------------------
# Part 2: the lookup-sequence graph.  T = fresh private table, P = the public table.
# Every event leaves `obs` = [(route, key, object), ...]; key = (Z, A, q) for T, ('P', Z, A, q) for P.
SEQ_SETUP = """import pickle, copy
import periodictable as pt
import periodictable.formulas          # imported up front (it is imported lazily by formula() otherwise)
from periodictable import core, mass, density, formula
from periodictable.core import change_table
T = core.PeriodicTable(%(name)r); mass.init(T); density.init(T)
T_NAME = %(bname)r
P = pt.elements; P_NAME = b'public'
def leaves(s):
    out = []
    for count, frag in s:
        out.extend(leaves(frag) if isinstance(frag, (list, tuple)) else [frag])
    return out
def atomkey(a):
    return (a.number, getattr(a, 'isotope', 0), getattr(a, 'charge', 0))
"""

EVENTS = [
    ("ion:Fe:2", "obs = [('attr', (26, 0, 0), T.Fe), ('ion[q]', (26, 0, 2), T.Fe.ion[2])]"),
    ("ion:[26]:3", "obs = [('index', (26, 0, 0), T[26]), ('ion[q]', (26, 0, 3), T[26].ion[3])]"),
    ("ion:Fe[56]:2", "obs = [('el[A]', (26, 56, 0), T.Fe[56]), ('ion[q]', (26, 56, 2), T.Fe[56].ion[2])]"),
    ("ion:isotope('56-Fe'):3",
     "obs = [('isotope()', (26, 56, 0), T.isotope('56-Fe')), ('ion[q]', (26, 56, 3), T.isotope('56-Fe').ion[3])]"),
    ("ion:D:1", "obs = [('attr', (1, 2, 0), T.D), ('ion[q]', (1, 2, 1), T.D.ion[1])]"),
    ("ion:H[2]:1", "obs = [('el[A]', (1, 2, 0), T.H[2]), ('ion[q]', (1, 2, 1), T.H[2].ion[1])]"),
    ("pickle:Fe[56]:2",
     "x = T.Fe[56].ion[2]\n"
     "obs = [('ion[q]', (26, 56, 2), x), ('pickle', (26, 56, 2), pickle.loads(pickle.dumps(x)))]"),
    ("deepcopy:Fe:3",
     "x = T.Fe.ion[3]\n"
     "obs = [('ion[q]', (26, 0, 3), x), ('deepcopy', (26, 0, 3), copy.deepcopy([x])[0])]"),
    # a pickle written by an earlier session of a table with T's name, restored before any other touch
    ("unpickle-first",
     "src = (P.Fe.ion[2], P.Fe[56].ion[3], P.D.ion[1])\n"
     "data = pickle.dumps(src, 2).replace(P_NAME, T_NAME)\n"
     "try:\n"
     "    restored, err = pickle.loads(data), None\n"
     "except Exception as e:\n"
     "    restored, err = None, e\n"
     "direct = (T.Fe.ion[2], T.Fe[56].ion[3], T.D.ion[1])\n"
     "applicable = pickle.dumps(direct, 2) == data\n"
     "keys = ((26, 0, 2), (26, 56, 3), (1, 2, 1))\n"
     "obs = [('unpickle-first', k, r) for k, r in zip(keys, restored or ())] + "
     "[('ion[q]', k, d) for k, d in zip(keys, direct)]"),
    ("change_table-in",
     "a, b = P.Fe.ion[3], P.Fe[56].ion[2]\n"
     "obs = [('ion[q]', ('P', 26, 0, 3), a), ('ion[q]', ('P', 26, 56, 2), b),\n"
     "       ('change_table-in', (26, 0, 3), change_table(a, T)), ('change_table-in', (26, 56, 2), change_table(b, T))]"),
    ("change_table-roundtrip",
     "a, b = T.D.ion[1], T.Fe[56].ion[3]\n"
     "pa, pb = change_table(a, P), change_table(b, P)\n"
     "obs = [('ion[q]', (1, 2, 1), a), ('ion[q]', (26, 56, 3), b),\n"
     "       ('change_table-forward', ('P', 1, 2, 1), pa), ('change_table-forward', ('P', 26, 56, 3), pb),\n"
     "       ('ion[q]', ('P', 1, 2, 1), P.D.ion[1]), ('ion[q]', ('P', 26, 56, 3), P.Fe[56].ion[3]),\n"
     "       ('change_table-back', (1, 2, 1), change_table(pa, T)), ('change_table-back', (26, 56, 3), change_table(pb, T))]"),
    # lookups by string in this table and in the public one (any index or cache behind name(), symbol(),
    # isotope() must be per table): the order of the two events is what matters
    ("strings:T",
     "obs = [('name()', (26, 0, 0), T.name('iron')), ('name()', (1, 2, 0), T.name('deuterium')),\n"
     "       ('symbol()', (26, 0, 0), T.symbol('Fe')), ('symbol()', (1, 2, 0), T.symbol('D')),\n"
     "       ('isotope()', (26, 56, 0), T.isotope('56-Fe')), ('isotope()', (1, 2, 0), T.isotope('D')),\n"
     "       ('index', (26, 0, 0), T[26]), ('el[A]', (26, 56, 0), T[26][56]), ('el[A]', (1, 2, 0), T[1][2])]"),
    ("strings:P",
     "obs = [('name()', ('P', 26, 0, 0), P.name('iron')), ('name()', ('P', 1, 2, 0), P.name('deuterium')),\n"
     "       ('symbol()', ('P', 26, 0, 0), P.symbol('Fe')), ('symbol()', ('P', 1, 2, 0), P.symbol('D')),\n"
     "       ('isotope()', ('P', 26, 56, 0), P.isotope('56-Fe')), ('isotope()', ('P', 1, 2, 0), P.isotope('D')),\n"
     "       ('index', ('P', 26, 0, 0), P[26]), ('el[A]', ('P', 26, 56, 0), P[26][56]), ('el[A]', ('P', 1, 2, 0), P[1][2])]"),
    ("parse",
     "f = formula('Fe{2+}Fe[56]{3+}D{+}', table=T)\n"
     "obs = [('parse', atomkey(a), a) for a in leaves(f.structure)]"),
]
EVENT_CODE = dict(EVENTS)
PARSE_KEYS = ((26, 0, 2), (26, 56, 3), (1, 2, 1))
PLAIN_ROUTES = ("ion[q]", "attr", "index", "el[A]", "isotope()", "name()", "symbol()")
SEQ_CHECK = """for route, key, obj in obs:
    if atomkey(obj) != key[-3:]:
        print('WRONG ATOM for', key, ':', route, 'returned', repr(obj), atomkey(obj))
        raise SystemExit(1)
    if key in ledger and ledger[key][0] is not obj:
        print('DIFFERENT OBJECT for', key, ':', route, 'returned', repr(obj), hex(id(obj)),
              'but', ledger[key][1], 'had returned', repr(ledger[key][0]), hex(id(ledger[key][0])))
        raise SystemExit(1)
    ledger.setdefault(key, (obj, route))
"""


def _plain_lookup(ns, key):
    tab, k = (ns["P"], key[1:]) if key[0] == "P" else (ns["T"], key)
    atom = tab[k[0]]
    if k[1]:
        atom = atom[k[1]]
    return atom.ion[k[2]] if k[2] else atom


def _kind_of(key):
    k = key[1:] if key[0] == "P" else key
    return ("isotope-ion" if k[1] else "ion") if k[2] else ("isotope" if k[1] else "element")


def seq_snippet(name, hist):
    lines = [SEQ_SETUP % dict(name=name, bname=name.encode()), "ledger = {}"]
    for label in hist:
        lines.append("# event %s" % label)
        lines.append(EVENT_CODE[label])
        lines.append(SEQ_CHECK.rstrip("\n"))
    lines.append("print('all lookups returned the same objects')")
    return "\n".join(lines) + "\n"


SEQ_TABLE = "q00000"          # same length as 'public' (needed by the unpickle-first event)


def seq_state():
    """A fresh private table (and the public one) with an empty ledger."""
    load_pt()
    ns = {}
    try:
        _ex(SEQ_SETUP % dict(name=SEQ_TABLE, bname=SEQ_TABLE.encode()), ns)
    except Exception as e:
        raise MachineryError("cannot build table %r: %s: %s" % (SEQ_TABLE, type(e).__name__, e))
    return ns, {}


def apply_event(ns, ledger, hist, acc):
    """Execute the last event of `hist` on the state reached by hist[:-1]; run the invariant.
    Returns True if the new state may be explored further."""
    label = hist[-1]
    i = len(hist) - 1
    sub = list(hist)
    case = dict(part="sequence", history=sub)
    acc.transitions += 1
    klass = label.split(":")[0]
    try:
        _ex(EVENT_CODE[label], ns)
    except Exception as e:
        if klass == "parse":
            acc.count("parse_event_raised")
            acc.outcome("seq:parse:raised-not-judged")
            acc.states += 1
            return True
        acc.violation("route-raises:sequence:%s" % klass, case, "the atoms", _exc(e),
                      standalone=seq_snippet(SEQ_TABLE, sub))
        return False
    obs = ns["obs"]
    if klass == "unpickle-first":
        if not ns["applicable"]:
            acc.count("unpickle_first_not_applicable")
            acc.outcome("seq:unpickle-first:not-applicable")
            return False        # the emulated pickle is not what the library writes: nothing to judge
        if ns["err"] is not None:
            acc.violation("route-raises:sequence:unpickle-first", case, "the atoms", _exc(ns["err"]),
                          standalone=seq_snippet(SEQ_TABLE, sub))
            return False
    if klass == "parse":
        obs = [o for o in obs if o[1] in PARSE_KEYS]
        if len(obs) != len(PARSE_KEYS):
            acc.count("parse_event_other_atoms")
    compared = False
    bad = False
    for route, key, obj in obs:
        k = key[1:] if key[0] == "P" else key
        for attr, want in (("number", k[0]), ("isotope", k[1]), ("charge", k[2])):
            try:
                got = getattr(obj, attr) if attr == "number" else getattr(obj, attr, 0)
            except Exception as e:
                got = _exc(e)
            if got != want and (ledger.get(key) is None or ledger[key][0] is obj):
                bad = True
                acc.violation("fields:%s:%s:%s" % (_kind_of(key), route, attr), case,
                              "%s == %r" % (attr, want), repr(got), standalone=seq_snippet(SEQ_TABLE, sub))
        old = ledger.get(key)
        if old is None:
            ledger[key] = (obj, route, i)
            continue
        if old[1] != route:
            compared = True
            acc.outcome("seq:%s:%s-after-%s" % (_kind_of(key), route, old[1]))
        if old[0] is not obj:
            bad = True
            # named after the route that disagrees with a plain lookup made now (the order is in the case)
            culprit = old[1] if route in PLAIN_ROUTES and old[1] not in PLAIN_ROUTES else route
            try:
                ref = _plain_lookup(ns, key)
                if ref is old[0] and ref is not obj:
                    culprit = route
                elif ref is obj and ref is not old[0]:
                    culprit = old[1]
            except Exception:
                pass
            acc.violation("identity:%s:%s" % (_kind_of(key), culprit), case,
                          "the object that %s returned for %r at event %d" % (old[1], key, old[2] + 1),
                          "%r (id %#x) is not %r (id %#x)" % (obj, id(obj), old[0], id(old[0])),
                          standalone=seq_snippet(SEQ_TABLE, sub))
    if bad:
        return False
    acc.states += 1
    if compared:
        acc.nontrivial += 1
    return True


def run_path(hist, acc):
    """Execute one history on a fresh private table, checking after every event (used by replay)."""
    ns, ledger = seq_state()
    for i in range(len(hist)):
        if not apply_event(ns, ledger, tuple(hist[:i + 1]), acc):
            break
    acc.evaluations = acc.traces = acc.transitions


def _in_fork(fn):
    """Run fn() in a forked copy of this process (= on a snapshot of the interpreter state reached so
    far) and return its result.  Sequential: the parent waits; no threads."""
    r, w = os.pipe()
    sys.stdout.flush(); sys.stderr.flush()
    pid = os.fork()
    if pid == 0:
        code = 0
        try:
            os.close(r)
            try:
                out = ("ok", fn())
            except BaseException as e:
                out = ("err", "%r\n%s" % (e, traceback.format_exc()))
            with os.fdopen(w, "wb") as f:
                f.write(pickle.dumps(out, pickle.HIGHEST_PROTOCOL))
        except BaseException:
            code = 3
        finally:
            os._exit(code)
    os.close(w)
    with os.fdopen(r, "rb") as f:
        data = f.read()
    _, status = os.waitpid(pid, 0)
    if not data:
        raise MachineryError("C08 sequence child died (status %d)" % status)
    kind, val = pickle.loads(data)
    if kind == "err":
        raise MachineryError("C08 sequence child failed: %s" % val)
    return val


def _explore(ns, ledger, hist, depth, labels, acc):
    """Depth-first: every successor state is produced in a forked copy of the current interpreter, so
    each history runs on its own copy of the fresh table and every edge is executed exactly once."""
    for label in labels:
        h2 = hist + (label,)
        def child(h2=h2):
            a = Acc()
            if apply_event(ns, ledger, h2, a) and len(h2) < depth:
                _explore(ns, ledger, h2, depth, labels, a)
            if len(h2) == depth and a.transitions and (hash(h2) % 499 == 0):
                a.sample(dict(part="sequence", history=list(h2)))
            return a
        acc.merge(_in_fork(child))


def _seq_shard(args):
    prefix, depth, labels = args
    gc.disable()
    acc = Acc()
    ns, ledger = seq_state()
    # the prefix is executed here; its states are counted by the shard that extends it with labels[0]s
    for i in range(len(prefix)):
        mine = all(l == labels[0] for l in prefix[i + 1:])
        if not apply_event(ns, ledger, tuple(prefix[:i + 1]), acc if mine else Acc()):
            acc.info["max_depth_completed"] = depth
            return acc
    _explore(ns, ledger, tuple(prefix), depth, labels, acc)
    acc.evaluations = acc.traces = acc.transitions
    acc.info["max_depth_completed"] = depth
    if not acc.samples:
        acc.sample(dict(part="sequence", history=list(prefix) + [labels[0]] * (depth - len(prefix))))
    return acc


# ------------------------------------------------------------------------------------------------
# ---------------------------------------------------------------------------------------------
# part 3: identity across lazy loaders (E2 style: every history runs in its own forked interpreter
# that starts from the untouched public table).  Loaders may create isotopes on demand
# (Element.add_isotope); the objects that existed before a loader ran must be the ones every later
# lookup returns, and the set of isotopes must not depend on which loaders ran.
LOADERS = [
    ("neutron", "pt.Fe.neutron"), ("neutron-via-isotope", "pt.Ni[58].neutron"),
    ("activation", "pt.Fe[58].neutron_activation"), ("xray", "pt.Fe.ion[2].xray"),
    ("radius", "pt.Fe.covalent_radius"), ("crystal", "pt.Fe.crystal_structure"), ("lines", "pt.Cu.K_alpha"),
    ("mff", "pt.Fe.magnetic_ff"), ("nsf.init", "__import__('periodictable.nsf').nsf.init(pt.elements)"),
    ("activation.init", "__import__('periodictable.activation').activation.init(pt.elements)"),
    ("nsf.init-reload", "__import__('periodictable.nsf').nsf.init(pt.elements, reload=True)"),
    ("activation.init-reload", "__import__('periodictable.activation').activation.init(pt.elements, reload=True)"),
]


def _identity_snapshot(pt):
    snap = {}
    for el in pt.elements:
        snap[(el.number, 0, 0)] = el
        for q, ion in el.ion.ionset.items():
            snap[(el.number, 0, q)] = ion
        for A, iso in el._isotopes.items():
            snap[(el.number, A, 0)] = iso
            for q, ion in iso.ion.ionset.items():
                snap[(el.number, A, q)] = ion
    return snap


def _loader_path(args):
    hist, = args
    acc = Acc()
    pt = load_pt()
    # a few ions exist before the loaders run
    for a in (pt.Fe, pt.Fe[56], pt.Ni[58], pt.H, pt.D, pt.Cu[63]):
        for q in a.ions[:2]:
            a.ion[q]
    before = _identity_snapshot(pt)
    code = ["import periodictable as pt", "atoms = dict(((el.number, i.isotope), i) for el in pt.elements for i in el)"]
    for name in hist:
        expr = dict(LOADERS)[name]
        code.append(expr)
        try:
            eval(expr, dict(pt=pt, __import__=__import__))
        except Exception as e:
            acc.violation("loader-raises:%s:%s" % (name, type(e).__name__), dict(part="loaders", history=list(hist)),
                          "no exception", "%s: %s" % (type(e).__name__, e), standalone="\n".join(code) + "\n")
            return acc
        acc.transitions += 1
        acc.evaluations += 1
        after = _identity_snapshot(pt)
        code2 = code + ["print([k for k, v in atoms.items() if pt.elements[k[0]][k[1]] is not v][:5])"]
        lost = [k for k in before if k not in after]
        changed = [k for k in before if k in after and after[k] is not before[k]]
        new_iso = [k for k in after if k not in before and k[2] == 0]
        if lost or changed:
            acc.violation("identity-changed-by-loader:%s" % name.split("-")[0].split(".")[0],
                          dict(part="loaders", history=list(hist)),
                          "every atom object that existed before the loader is still the one looked up",
                          "replaced: %r lost: %r" % (changed[:4], lost[:4]), standalone="\n".join(code2) + "\n")
            return acc
        if new_iso:
            acc.violation("isotope-set-changed-by-loader:%s" % name.split("-")[0].split(".")[0],
                          dict(part="loaders", history=list(hist)),
                          "the isotopes of an element do not depend on which loaders ran",
                          "new isotopes %r" % new_iso[:6], standalone="\n".join(code2) + "\n")
            return acc
        # every route still returns the snapshot objects
        for (Z, A, q), obj in list(before.items())[::97]:
            el = pt.elements[Z]
            got = el if A == 0 else el[A]
            got = got.ion[q] if q else got
            if got is not obj:
                acc.violation("identity-changed-by-loader:%s" % name, dict(part="loaders", history=list(hist)),
                              "same object", "%r" % ((Z, A, q),), standalone="\n".join(code2) + "\n")
                return acc
    acc.states += 1
    acc.nontrivial += 1
    acc.count("loader_histories")
    if len(hist) == 2 and hist[0] == "neutron":
        acc.sample(dict(part="loaders", history=list(hist)))
    return acc


# ------------------------------------------------------------------------------------------------
# part 4: histories of TABLE CONSTRUCTION.  Atoms find their way home through the table NAME
# (`__reduce__` stores it, PRIVATE_TABLES resolves it), so what pickle / copy / deepcopy return depends on
# which tables were constructed, under which names, in which order.  State = P (public), T (private,
# SEQ_TABLE) and every table constructed since; every table stays alive.  Event = construct a table under a
# given name (mass + density initialised when the library accepts the name).  After every event the
# battery runs over every live table: lookup, pickle (all protocols), copy, deepcopy, inside a container,
# inside a formula - over a fixed set of atoms of each kind (incl. an ion first created in this round), or
# over ALL atoms of the table (`full`).  The ledger keeps every object ever returned for (table, Z, A, q).
TABLE_EVENTS = [
    ("same-name", "T_NAME"),                   # the name of the private table that is still in use
    ("public-name", "core.PUBLIC_TABLE_NAME"),
    ("other-name", "'r00000'"),
    ("case-changed-name", "T_NAME.upper()"),   # near collisions: distinct names today; a library may refuse them
    ("name-with-space", "T_NAME + ' '"),
    ("near-public-name", "core.PUBLIC_TABLE_NAME.capitalize()"),
]
TABLE_EVENT = dict(TABLE_EVENTS)
TAB_SETUP = """import pickle, copy
import periodictable as pt
import periodictable.formulas
from periodictable import core, mass, density, formula
T_NAME = %(name)r
live = [('P', pt.elements, core.PUBLIC_TABLE_NAME)]          # label, table, name: every table stays alive
def construct(label, name):
    try:
        t = core.PeriodicTable(name)
    except Exception as e:
        return e                                # the name is refused: nothing may have changed
    if any(t is x for _, x, _ in live):
        return None                             # the library handed out the table that exists under the name
    mass.init(t); density.init(t)
    live.append((label, t, name))
    return t
T = construct('T', T_NAME)
def atomkey(a):
    return (a.number, getattr(a, 'isotope', 0), getattr(a, 'charge', 0))
def groups(tab, rnd, full):
    if full:                                    # every atom of the table, one group per element
        out = []
        for el in tab:
            Z = el.number
            g = [((Z, 0, 0), el)] + [((Z, 0, q), el.ion[q]) for q in el.ions]
            for iso in el:
                g.append(((Z, iso.isotope, 0), iso))
                g.extend(((Z, iso.isotope, q), iso.ion[q]) for q in el.ions)
            out.append(g)
        return out
    fe = tab[26]
    c = [q for q in fe.ions if q != 2][rnd]     # an ion that is created in this round
    return [[((26, 0, 0), fe), ((26, 56, 0), fe[56]), ((26, 0, 2), fe.ion[2]), ((26, 56, 2), fe[56].ion[2]),
             ((26, 0, c), fe.ion[c]), ((26, 56, c), fe[56].ion[c]),
             ((1, 2, 0), tab.D), ((1, 2, 1), tab.D.ion[1]), ((1, 3, 0), tab.T), ((1, 0, 0), tab[1]), ((1, 1, 0), tab[1][1]),
             ((1, 0, -1), tab[1].ion[-1]), ((0, 0, 0), tab[0]), ((0, 1, 0), tab[0][1]), ((8, 0, -2), tab[8].ion[-2]),
             ((8, 18, -2), tab[8][18].ion[-2]), ((118, 0, 0), tab[118])]]
def battery(rnd, full):
    obs = []
    def attempt(route, k, fn):
        try:
            obs.append((route, k, fn()))
        except Exception as e:
            obs.append((route, k, e))
    for label, tab, _ in list(live):
        for g in groups(tab, rnd, full):
            for k3, a in g:
                k = (label,) + k3
                obs.append(('lookup', k, a))
                for p in range(pickle.HIGHEST_PROTOCOL + 1):
                    attempt('pickle', k, lambda: pickle.loads(pickle.dumps(a, p)))
                attempt('copy', k, lambda: copy.copy(a))
                attempt('deepcopy', k, lambda: copy.deepcopy(a))
                attempt('deepcopy-in-container', k, lambda: copy.deepcopy({'a': [a, a]})['a'][1])
                attempt('pickle-in-container', k, lambda: pickle.loads(pickle.dumps((a, [a])))[1][0])
            try:
                f = formula([(1, a) for _, a in g])
            except Exception:
                continue                        # building the formula is not the subject here
            for route, fn in (('pickle-in-formula', lambda: pickle.loads(pickle.dumps(f))),
                              ('deepcopy-in-formula', lambda: copy.deepcopy(f))):
                try:
                    back = [x for _, x in fn().structure]
                    if len(back) != len(g):
                        raise ValueError('the restored formula has %%d atoms, not %%d' %% (len(back), len(g)))
                except Exception as e:
                    obs.append((route, (label,) + g[0][0], e))
                    continue
                obs.extend((route, (label,) + k3, x) for (k3, _), x in zip(g, back))
    return obs
ledger = {}
"""
TAB_EVENT_CODE = "constructed = construct(%(label)r, %(expr)s)"
TAB_CHECK = """for route, key, obj in battery(%(rnd)d, %(full)s):
    if isinstance(obj, Exception):
        print('RAISES', route, key, repr(obj)); raise SystemExit(1)
    if atomkey(obj) != key[-3:]:
        print('WRONG ATOM for', key, ':', route, 'returned', repr(obj), atomkey(obj)); raise SystemExit(1)
    if key in ledger and ledger[key][0] is not obj:
        print('DIFFERENT OBJECT for', key, ':', route, 'returned', repr(obj), hex(id(obj)), 'of table', repr(obj.table),
              'but', ledger[key][1], 'had returned', repr(ledger[key][0]), hex(id(ledger[key][0])))
        raise SystemExit(1)
    ledger.setdefault(key, (obj, route))
"""
TAB_RESTORE = ("pickle", "copy", "deepcopy", "deepcopy-in-container", "pickle-in-container", "pickle-in-formula",
               "deepcopy-in-formula")


def tab_snippet(hist, full_depth):
    lines = [TAB_SETUP % dict(name=SEQ_TABLE), TAB_CHECK % dict(rnd=0, full="False")]
    for i, label in enumerate(hist):
        lines.append("# event %s" % label)
        lines.append(TAB_EVENT_CODE % dict(label="N%d" % (i + 1), expr=TABLE_EVENT[label]))
        lines.append("print(%r, '->', repr(constructed))" % label)
        lines.append(TAB_CHECK % dict(rnd=i + 1, full="not isinstance(constructed, (Exception, type(None)))"
                                      if i + 1 <= full_depth else "False"))
    lines.append("print('every atom of every live table was restored to itself')")
    return "\n".join(lines)


def tab_state():
    load_pt()
    ns = {}
    try:
        _ex(TAB_SETUP % dict(name=SEQ_TABLE), ns)
    except Exception as e:
        raise MachineryError("cannot build table %r: %s: %s" % (SEQ_TABLE, type(e).__name__, e))
    if not isinstance(ns["T"], ns["core"].PeriodicTable):
        raise MachineryError("cannot build table %r: %r" % (SEQ_TABLE, ns["T"]))
    ns["classes"] = []            # class of every construction that succeeded so far
    return ns


def tab_battery(ns, hist, full_depth, acc, changed=False):
    """Run the battery in the state reached by `hist` and check it against the ledger; True = explore on.
    All atoms (instead of the fixed set) after one of the first `full_depth` events, if it constructed a table."""
    rnd = len(hist)
    full = bool(changed) and 0 < rnd <= full_depth
    case = dict(part="tables", history=list(hist), full_depth=full_depth)
    klass = ns["classes"][-1] if ns["classes"] else "none"
    try:
        obs = _ev("battery(%d, %r)" % (rnd, full), ns)
    except Exception as e:
        acc.violation("route-raises:after-table-construction:%s:lookup" % klass, case, "the atoms", _exc(e),
                      standalone=tab_snippet(hist, full_depth))
        return False
    ledger = ns["ledger"]
    names = dict((l, n) for l, _, n in ns["live"])
    acc.transitions += len(obs)
    bad = set()
    for route, key, obj in obs:
        what = "restore" if route in TAB_RESTORE else "lookup"
        if isinstance(obj, Exception):
            sig = "route-raises:after-table-construction:%s:%s" % (klass, what)
            if sig not in bad:
                bad.add(sig)
                acc.violation(sig, dict(case, table=key[0], atom=list(key[1:]), route=route), "the atom", _exc(obj),
                              standalone=tab_snippet(hist, full_depth))
            continue
        try:
            got = (obj.number, getattr(obj, "isotope", 0), getattr(obj, "charge", 0))
        except Exception as e:
            got = _exc(e)
        old = ledger.get(key)
        if got != key[1:] and (old is None or old[0] is obj):
            sig = "fields:after-table-construction:%s:%s" % (klass, what)
            if sig not in bad:
                bad.add(sig)
                acc.violation(sig, dict(case, table=key[0], atom=list(key[1:]), route=route), "Z, A, charge == %r" % (key[1:],),
                              repr(got), standalone=tab_snippet(hist, full_depth))
            continue
        if old is None:
            ledger[key] = (obj, route, rnd)
        elif old[0] is not obj:
            sig = "identity-after-table-construction:%s:%s" % (klass, what)
            if sig not in bad:
                bad.add(sig)
                acc.violation(sig, dict(case, table=key[0], atom=list(key[1:]), route=route),
                              "the object that %s returned for %r of table %s (named %r) after %d construction event(s)"
                              % (old[1], key[1:], key[0], names.get(key[0]), old[2]),
                              "%r (id %#x, an atom of a table named %r) is not %r (id %#x); live tables: %r"
                              % (obj, id(obj), getattr(obj, "table", "?"), old[0], id(old[0]), sorted(names.items())),
                              standalone=tab_snippet(hist, full_depth))
    if bad:
        acc.outcome("tables:restore:VIOLATION")
        return False
    acc.outcome("tables:%s:%d-live-tables:same-objects" % ("all-atoms" if full else "fixed-atoms", len(names)))
    return True


def tab_event(ns, hist, full_depth, acc):
    """Execute the last event of `hist` (a construction) and the battery; True = explore on."""
    label = hist[-1]
    expr = TABLE_EVENT[label]
    acc.transitions += 1
    try:
        name = _ev(expr, ns)
        klass = label
        for l, _, n in ns["live"]:
            if n == name:
                klass = "public-name" if l == "P" else "same-name"
        _ex(TAB_EVENT_CODE % dict(label="N%d" % len(hist), expr=expr), ns)
    except Exception as e:
        raise MachineryError("C08 table event %s failed: %r" % (label, e))
    made = ns["constructed"]
    if isinstance(made, Exception):
        if klass == "other-name":
            raise MachineryError("cannot build a table under the fresh name %r: %r" % (name, made))
        acc.outcome("tables:%s:refused-%s" % (klass, type(made).__name__))
    elif made is None:
        acc.outcome("tables:%s:returned-the-existing-table" % klass)
    else:
        acc.outcome("tables:%s:constructed" % klass)
        ns["classes"].append(klass)
    # all atoms only where the set of live tables has changed (otherwise the state is the one before the event)
    changed = made is not None and not isinstance(made, Exception)
    ok = tab_battery(ns, hist, full_depth, acc, changed)
    if ok:
        acc.states += 1
        if changed:
            acc.nontrivial += 1           # the name registry changed and earlier atoms were restored afterwards
    return ok


def _tab_explore(ns, hist, depth, full_depth, labels, acc):
    for label in labels:
        h2 = hist + (label,)
        def child(h2=h2):
            a = Acc()
            if tab_event(ns, h2, full_depth, a) and len(h2) < depth:
                _tab_explore(ns, h2, depth, full_depth, labels, a)
            if len(h2) == depth and labels.index(h2[-1]) == 0:
                a.sample(dict(part="tables", history=list(h2), full_depth=full_depth))
            return a
        acc.merge(_in_fork(child))


def _tab_shard(args):
    first, depth, full_depth, labels, root = args
    gc.disable()
    acc = Acc()
    ns = tab_state()
    ok = tab_battery(ns, (), full_depth, acc if root else Acc())
    if root and ok:
        acc.states += 1
    if ok and tab_event(ns, (first,), full_depth, acc) and depth > 1:
        _tab_explore(ns, (first,), depth, full_depth, labels, acc)
    acc.evaluations = acc.traces = acc.transitions
    acc.count("table_construction_histories", sum(len(labels) ** k for k in range(depth)))
    return acc


# ------------------------------------------------------------------------------------------------
# part 5: the FIRST access to an atom uses a key of another type.  Ions (and whatever else a table creates on
# demand) are stored under the key that asked first; every later route must still give that one object and
# its field must equal the int key.  State = the untouched public table P and a fresh private table T; one
# forked copy of that state per (table, atom, key); the key kinds are the EQ and SPELL entries of ALT_KEYS
# (+ bool and -0.0 where they equal the key).
FIRST_ATOMS = (
    # route, kind, lookup with a hole, int key, field, the same atom in the other table
    ("table[Z]", "element", "{T}[%s]", 26, "number"), ("table[Z]", "element", "{T}[%s]", 0, "number"),
    ("table[Z]", "element", "{T}[%s]", 1, "number"),
    ("el[A]", "isotope", "{T}[26][%s]", 56, "isotope"), ("el[A]", "isotope", "{T}[1][%s]", 2, "isotope"),
    ("el[A]", "isotope", "{T}[1][%s]", 1, "isotope"), ("el[A]", "isotope", "{T}[0][%s]", 1, "isotope"),
    ("ion[q]", "ion", "{T}[26].ion[%s]", 2, "charge"), ("ion[q]", "ion", "{T}[8].ion[%s]", -2, "charge"),
    ("ion[q]", "ion", "{T}[1].ion[%s]", 1, "charge"), ("ion[q]", "ion", "{T}[1].ion[%s]", -1, "charge"),
    ("isotope.ion[q]", "isotope-ion", "{T}[26][56].ion[%s]", 3, "charge"),
    ("isotope.ion[q]", "isotope-ion", "{T}[1][2].ion[%s]", 1, "charge"),
    ("isotope.ion[q]", "isotope-ion", "{T}[8][18].ion[%s]", -2, "charge"),
)
FIRST_KEYS = tuple((klass, cls, k) for klass, cls, k in ALT_KEYS if cls in (EQ, SPELL)) + (
    ("bool", EQ, "bool({K})"), ("negative-zero", EQ, "-0.0*({K} + 1)"))
FIRST_SETUP = "import math\nimport numpy as np\nfrom fractions import Fraction\nfrom decimal import Decimal\n"
FIRST_CODE = """K = %(K)r
results, moved = [], []
def attempt(into, what, fn):
    try:
        into.append((what, fn()))
    except Exception as e:
        into.append((what, e))
attempt(results, 'first-lookup', lambda: %(alt)s)           # the first access to this atom in this process
Y = %(canon)s
if not isinstance(results[0][1], Exception):
    for p in (0, 2, pickle.HIGHEST_PROTOCOL):
        attempt(results, 'pickle', lambda: pickle.loads(pickle.dumps(Y, p)))
    attempt(results, 'copy', lambda: copy.copy(Y))
    attempt(results, 'deepcopy', lambda: copy.deepcopy([Y])[0])
    attempt(results, 'repeated-lookup', lambda: %(alt)s)
    attempt(results, 'int-key-again', lambda: %(canon)s)
    attempt(results, 'change_table-back', lambda: change_table(change_table(Y, %(O)s), %(T)s))
    attempt(moved, 'change_table-forward', lambda: change_table(Y, %(O)s))
    attempt(moved, 'other-table-lookup', lambda: %(ocanon)s)
"""
FIRST_CHECK = """if isinstance(results[0][1], Exception):
    print('the key is refused:', repr(results[0][1]))
else:
    for what, obj in results + moved:
        if isinstance(obj, Exception):
            print('RAISES', what, repr(obj)); raise SystemExit(1)
    for what, obj in results:
        if obj is not Y:
            print('DIFFERENT OBJECT:', what, 'gave', hex(id(obj)), 'but the int key gives', hex(id(Y))); raise SystemExit(1)
    assert moved[0][1] is moved[1][1], 'change_table does not give the atom of the other table'
    assert Y.%(attr)s == K, (Y.%(attr)s, K)
    print('one object through every route')
"""


def first_items():
    out = []
    for tab in ("T", "P"):
        for ai, (route, kind, hole, K, attr) in enumerate(FIRST_ATOMS):
            for ki, (klass, cls, kexpr) in enumerate(FIRST_KEYS):
                if klass == "bool" and K not in (0, 1):
                    continue
                if klass == "negative-zero" and K != 0:
                    continue
                out.append((tab, ai, ki))
    return out


def first_code(tab, ai, ki):
    route, kind, hole, K, attr = FIRST_ATOMS[ai]
    klass, cls, kexpr = FIRST_KEYS[ki]
    other = "P" if tab == "T" else "T"
    d = dict(K=K, alt=hole.format(T=tab) % kexpr.format(K="K"), canon=hole.format(T=tab) % "K",
             ocanon=hole.format(T=other) % "K", T=tab, O=other, attr=attr)
    return FIRST_CODE % d, FIRST_CHECK % d


def first_case(ns, tab, ai, ki, acc):
    """One first-access case in the current (untouched) state; to be run in a forked copy."""
    route, kind, hole, K, attr = FIRST_ATOMS[ai]
    klass, cls, kexpr = FIRST_KEYS[ki]
    code, check = first_code(tab, ai, ki)
    case = dict(part="first-access", table=tab, atom=ai, key=ki, route=hole.format(T=tab) % kexpr.format(K=repr(K)))
    snippet = SEQ_SETUP % dict(name=SEQ_TABLE, bname=SEQ_TABLE.encode()) + FIRST_SETUP + code + check
    acc.states += 1
    acc.nontrivial += 1
    try:
        _ex(FIRST_SETUP, ns)          # imports only (already done before the fork)
        _ex(code, ns)
    except Exception as e:
        raise MachineryError("C08 first-access case %r failed: %r" % (case, e))
    results, moved, y = ns["results"], ns.get("moved", []), ns["Y"]
    acc.transitions += len(results) + len(moved) + 1
    pre = "first-access:%s:%s:" % (route, klass)
    if isinstance(y, Exception) or isinstance(results[0][1], Exception):
        acc.outcome(pre + "refused-" + type(results[0][1]).__name__)
        return
    bad = False
    for what, obj in results + moved:
        if isinstance(obj, Exception):
            bad = True
            acc.violation("route-raises-after-first-access-by:%s:%s:%s" % (SIG_KEY.get(klass, klass), route, what), case, "the atom",
                          _exc(obj), standalone=snippet)
    if bad:
        return
    for what, obj in results:
        if obj is not y:
            bad = True
            acc.violation("identity-after-first-access-by:%s:%s:%s" % (SIG_KEY.get(klass, klass), route, what), case,
                          "the object that the int key returns, %s (id %#x)" % (_r(y), id(y)),
                          "%s (id %#x)" % (_r(obj), id(obj)), standalone=snippet)
            break
    if not bad and moved[0][1] is not moved[1][1]:
        bad = True
        acc.violation("identity-after-first-access-by:%s:%s:change_table-forward" % (SIG_KEY.get(klass, klass), route), case,
                      "the atom of the other table, %s (id %#x)" % (_r(moved[1][1]), id(moved[1][1])),
                      "%s (id %#x)" % (_r(moved[0][1]), id(moved[0][1])), standalone=snippet)
    try:
        got = getattr(y, attr)
        same = bool(got == K)
    except Exception as e:
        got, same = _exc(e), False
    if not same:
        bad = True
        acc.violation("fields-after-first-access-by:%s:%s:%s" % (SIG_KEY.get(klass, klass), route, attr), case, "%s == %r" % (attr, K),
                      _r(got), standalone=snippet)
    acc.outcome(pre + ("VIOLATION" if bad else "same-object"))


def _first_shard(args):
    items, = args
    gc.disable()
    acc = Acc()
    ns, _ = seq_state()
    _ex(FIRST_SETUP, ns)              # the modules of the key types are imported before the state is forked
    for tab, ai, ki in items:
        def child(tab=tab, ai=ai, ki=ki):
            a = Acc()
            first_case(ns, tab, ai, ki, a)
            return a
        acc.merge(_in_fork(child))
    acc.evaluations = acc.traces = acc.transitions
    acc.count("first_access_cases", len(items))
    if items:
        tab, ai, ki = items[0]
        acc.sample(dict(part="first-access", table=tab, atom=ai, key=ki))
    return acc


# ------------------------------------------------------------------------------------------------
# part 6: the MODULE-ATTRIBUTE route of every table.  `core.define_elements(table, namespace)` is the documented
# way to make the atoms of a table variables of a module ("Define external variables for each element in
# namespace.  Elements are defined both by name and by symbol"; the package does it for the public table).  What a
# module attribute gives afterwards depends on what the namespace held BEFORE and on which tables were defined
# into it in which order.  State = a namespace (the __dict__ of a module M) + the history of define_elements
# events; tables: P (public), A, B (private) as event operands, C (private) only to pre-fill a namespace.  After
# every event every documented name (all symbols, all names, D, T, deuterium, tritium - read from the table by
# NUMBER, not through define_elements) must be, as attribute of M, the very atom of the table just defined;
# [A], .ion[q], pickle, deepcopy reached through the attribute stay in that table; every table still resolves its
# numbers to the atoms it had at the start; the returned list names what was defined.
NS_TABLES = (("P", "pt.elements"), ("A", "private('na0000')"), ("B", "private('nb0000')"), ("C", "private('nc0000')"))
NS_EVENTS = ("P", "A", "B")
NS_KINDS = (
    ("fresh-dict", "NS = {}"),
    ("after-star-import", "NS = {}\nexec('from periodictable import *', NS)"),
    ("after-define_elements-of-another-table", "NS = {}\ncore.define_elements(TABLES['C'], NS)"),
    # a module of the caller's own that happens to use element symbols and names for other things
    ("unrelated-values-under-element-names",
     "NS = dict(I=1j, K=273.15, lead='guitar', tin=['can'], D=None, T=0, deuterium=False, tritium='', H=(), iron={},\n"
     "          Fe=len, n=3, neutron=types, He=object(), Og=0.0, oganesson=Ellipsis, x=1, my_table=TABLES['C'])"),
)
NS_KIND = dict(NS_KINDS)
NS_SETUP = """import pickle, copy, types
import periodictable as pt
from periodictable import core, mass, density
def private(name):
    t = core.PeriodicTable(name); mass.init(t); density.init(t)
    return t
TABLES = {%(tables)s}
ALIASES = (('D', 'deuterium', 1, 2), ('T', 'tritium', 1, 3))      # PeriodicTable docstrings
def documented(tab):
    # name -> atom for every name that define_elements is documented to define, read from the table by number
    out = {}
    for Z in range(%(minz)d, %(maxz)d + 1):
        out[tab[Z].symbol] = out[tab[Z].name] = tab[Z]
    for sym, name, Z, A in ALIASES:
        out[sym] = out[name] = tab[Z][A]
    return out
REF = dict((label, documented(tab)) for label, tab in TABLES.items())
ATOMS = (core.Element, core.Isotope, core.Ion)
def observe(label, defined, before):
    # [(route, name, what the route gave or the exception it raised, the atom of TABLES[label] it must be)]
    tab, ref = TABLES[label], REF[label]
    obs = []
    def attempt(route, name, fn, want):
        try:
            obs.append((route, name, fn(), want))
        except Exception as e:
            obs.append((route, name, e, want))
    for name in sorted(ref):
        attempt('module-attribute', name, lambda: getattr(M, name), ref[name])
    for l in sorted(TABLES):                    # every table still holds the atoms it had at the start
        try:
            now = documented(TABLES[l])
        except Exception as e:
            obs.append(('table-lookup', l, e, None))
            continue
        obs.extend(('table-lookup', l + ':' + name, now.get(name), want) for name, want in sorted(REF[l].items()))
    for name, want in sorted(ref.items()):      # reach through every atom once: under its symbol
        if getattr(M, name, None) is not want or name != want.symbol:
            continue
        Z = want.number
        try:
            if isinstance(want, core.Isotope):  # D, T
                wants = [('ion[q]', 'getattr(M, name).ion[%%d]' %% q, tab[Z][want.isotope].ion[q]) for q in want.ions[:1]]
            else:
                As = sorted(set(want.isotopes[:1] + want.isotopes[-1:]))
                qs = sorted(set(want.ions[:1] + want.ions[-1:]))
                wants = [('el[A]', 'getattr(M, name)[%%d]' %% A, tab.isotope('%%d-%%s' %% (A, name))) for A in As]
                wants += [('ion[q]', 'getattr(M, name).ion[%%d]' %% q, tab[Z].ion[q]) for q in qs]
                wants += [('isotope.ion[q]', 'getattr(M, name)[%%d].ion[%%d]' %% (A, q), tab.isotope('%%d-%%s' %% (A, name)).ion[q])
                          for A in As[-1:] for q in qs[:1]]
        except Exception as e:
            obs.append(('reference-lookup', name, e, None))
            continue
        for route, expr, w in wants:
            attempt(route, name, lambda: eval(expr, globals(), dict(name=name)), w)
        for route, expr, w in [('attribute', 'getattr(M, name)', want)] + wants[-1:]:
            attempt('pickle', name, lambda: pickle.loads(pickle.dumps(eval(expr, globals(), dict(name=name)))), w)
            attempt('deepcopy', name, lambda: copy.deepcopy([eval(expr, globals(), dict(name=name))])[0], w)
    # the returned value lists the names that were defined
    try:
        listed = set(defined)
        if not all(isinstance(k, str) for k in listed):
            raise TypeError('not all names are strings')
    except Exception as e:
        obs.append(('returned-names', 'not-a-sequence-of-names', e, None))
        return obs
    for k in sorted(set(ref) - listed):
        obs.append(('returned-names', 'documented-name-not-listed', k, None))
    for k in sorted(listed - set(NS)):
        obs.append(('returned-names', 'listed-name-not-defined', k, None))
    for k in sorted(k for k, v in NS.items() if isinstance(k, str) and isinstance(v, ATOMS)
                    and (k not in before or before[k] is not v) and k not in listed):
        obs.append(('returned-names', 'defined-name-not-listed', k, None))
    return obs
"""
NS_PREFILL = "%(prefill)s\nM = types.ModuleType('c08_namespace'); M.__dict__.update(NS); NS = M.__dict__\n"
NS_EVENT_CODE = "before = dict(NS)\ndefined = core.define_elements(TABLES[%(label)r], NS)"
NS_CHECK = """for route, name, got, want in observe(%(label)r, defined, before):
    if isinstance(got, Exception):
        print('RAISES', route, name, repr(got)); raise SystemExit(1)
    if route == 'returned-names':
        print('RETURNED NAMES:', name, repr(got)); raise SystemExit(1)
    if got is not want:
        print('DIFFERENT OBJECT:', route, 'of/through', repr(name), 'gave', repr(got), hex(id(got)), 'of table',
              repr(getattr(got, 'table', None)), 'but the atom of table %(label)s is', repr(want), hex(id(want)),
              '; before the call the name held', repr(before.get(name, 'nothing')))
        raise SystemExit(1)
"""


def ns_setup():
    return NS_SETUP % dict(tables=", ".join("%r: %s" % lt for lt in NS_TABLES), minz=MIN_Z, maxz=MAX_Z)


def ns_snippet(kind, hist):
    lines = [ns_setup(), NS_PREFILL % dict(prefill=NS_KIND[kind])]
    for label in hist:
        lines.append("# event: define table %s into the namespace" % label)
        lines.append(NS_EVENT_CODE % dict(label=label))
        lines.append(NS_CHECK % dict(label=label))
    lines.append("print('every module attribute is the atom of the table defined last')")
    return "\n".join(lines)


def ns_state(kind):
    """The public and three fresh private tables + a namespace of the given kind, no event yet."""
    load_pt()
    ns = {}
    try:
        _ex(ns_setup(), ns)
        _ex(NS_PREFILL % dict(prefill=NS_KIND[kind]), ns)
    except Exception as e:
        raise MachineryError("cannot build the tables / the namespace %r: %s: %s" % (kind, type(e).__name__, e))
    if len(ns["REF"]["P"]) < MAX_Z - MIN_Z + 1:
        raise MachineryError("C08 namespaces: only %d documented names" % len(ns["REF"]["P"]))
    return ns


def _ns_prev(ns, name, want):
    before = ns["before"]
    if name not in before:
        return "name-was-free"
    if before[name] is want:
        return "name-held-this-atom"
    return "name-held-atom-of-another-table" if isinstance(before[name], ns["ATOMS"]) else "name-held-unrelated-value"


def ns_event(ns, kind, hist, acc):
    """Execute the last event of `hist` (define_elements of a table into the namespace) and judge every
    observation; True = explore on."""
    label = hist[-1]
    case = dict(part="namespace", namespace=kind, history=list(hist))
    snippet = ns_snippet(kind, hist)
    acc.transitions += 1
    try:
        _ex(NS_EVENT_CODE % dict(label=label), ns)
    except Exception as e:
        acc.violation("route-raises:define_elements", case, "the names are defined", _exc(e), standalone=snippet)
        return False
    try:
        obs = _ev("observe(%r, defined, before)" % label, ns)
    except Exception as e:
        raise MachineryError("C08 namespace observation failed for %r: %r" % (case, e))
    acc.transitions += len(obs)
    tclass = "public" if label == "P" else "private"
    bad = set()
    prevs = set()
    for route, name, got, want in obs:
        if route == "module-attribute":
            prev = _ns_prev(ns, name, want)
            prevs.add(prev)
        if route == "returned-names":
            sig = "define_elements-return:%s" % name
            exp, obs_txt = "the returned sequence lists exactly the names it defined", _r(got)
        elif isinstance(got, Exception):
            sig = ("module-attribute-missing-after-define_elements:%s" % prev if route == "module-attribute"
                   else "route-raises:via-module-attribute:%s" % route)
            exp, obs_txt = "the atom", _exc(got)
        elif got is not want:
            sig = ("identity:module-attribute:define_elements:%s" % prev if route == "module-attribute" else
                   "identity:table-lookup-after-define_elements" if route == "table-lookup" else
                   "identity:via-module-attribute:%s" % route)
            exp = "the atom of the %s table %s that was just defined, %s (id %#x)" % (tclass, label, _r(want), id(want))
            obs_txt = "%s (id %#x, of table %s)" % (_r(got), id(got), _r(getattr(got, "table", None)))
        else:
            continue
        if sig not in bad:
            bad.add(sig)
            acc.violation(sig, dict(case, route=route, name=name), exp, obs_txt, standalone=snippet)
    if bad:
        acc.outcome("namespace:%s:VIOLATION" % kind)
        return False
    acc.states += 1
    overwrote = sorted(p for p in prevs if p in ("name-held-atom-of-another-table", "name-held-unrelated-value"))
    if overwrote:
        acc.nontrivial += 1           # at least one documented name held something else before the event
    acc.outcome("namespace:%s:%s-table:%s:same-objects" % (kind, tclass, "+".join(sorted(prevs))))
    return True


def _ns_explore(ns, kind, hist, depth, labels, acc):
    """Depth-first; every successor state is produced in a forked copy (namespace and tables are snapshotted)."""
    for label in labels:
        h2 = hist + (label,)
        def child(h2=h2):
            a = Acc()
            if ns_event(ns, kind, h2, a) and len(h2) < depth:
                _ns_explore(ns, kind, h2, depth, labels, a)
            if len(h2) == depth and h2[:-1] == tuple(labels[:depth - 1]):
                a.sample(dict(part="namespace", namespace=kind, history=list(h2)))
            return a
        acc.merge(_in_fork(child))


def _ns_shard(args):
    kind, depth, labels = args
    gc.disable()
    acc = Acc()
    ns = ns_state(kind)
    acc.states += 1                   # the root: the namespace as it was pre-filled
    _ns_explore(ns, kind, (), depth, labels, acc)
    acc.evaluations = acc.traces = acc.transitions
    acc.count("namespace_histories", sum(len(labels) ** k for k in range(depth + 1)))
    return acc


def run_ns_path(kind, hist, acc):
    """One define_elements history, sequentially, on fresh tables (used by replay, inside a fork)."""
    ns = ns_state(kind)
    for i in range(len(hist)):
        if not ns_event(ns, kind, tuple(hist[:i + 1]), acc):
            break
    acc.evaluations = acc.traces = acc.transitions


def _mixed_shard(args):
    if args[0] == "first":
        return _first_shard(args[1])
    if args[0] == "namespace":
        return _ns_shard(args[1])
    return _tab_shard(args[1]) if args[0] == "tables" else _seq_shard(args[1])


def run_tab_path(hist, full_depth, acc):
    """One construction history, sequentially, on a fresh interpreter state (used by replay, inside a fork)."""
    ns = tab_state()
    if not tab_battery(ns, (), full_depth, acc):
        return
    for i in range(len(hist)):
        if not tab_event(ns, tuple(hist[:i + 1]), full_depth, acc):
            break
    acc.evaluations = acc.traces = acc.transitions


def run(ctx):
    jobs = max(2, ctx.jobs)          # always forked: the parent's PRIVATE_TABLES must not grow
    load_pt()                        # imported once; the workers inherit an untouched public table
    import periodictable.formulas    # noqa - so that no forked state has to import the parser again
    items = []
    kinds = ["public", "private"] + ([] if ctx.quick else ["private2"])
    nchunk = 8
    idx = 0
    for kind in kinds:
        for variant in VARIANTS:
            zs = rotate(list(range(MIN_Z, MAX_Z + 1)), ctx.seed)
            for c, chunk in enumerate(common.chunks(zs, nchunk)):
                items.append((kind, variant, chunk, c == 0, idx))
                idx += 1
    for acc in common.pmap(_sweep_shard, items, jobs, "C08 sweep"):
        ctx.acc.merge(acc)
    ctx.log("sweep done: %d cases, %d violations" % (ctx.acc.states, ctx.acc.vcount))

    depth = 4 if ctx.quick else 5
    order = rotate(list(range(len(EVENTS))), ctx.seed)
    labels = tuple(EVENTS[i][0] for i in order)
    plen = 2
    shards = [(prefix, depth, labels) for prefix in itertools.product(labels, repeat=plen)]
    ctx.acc.states += 1        # the root: a fresh table, no event
    # table-construction histories: quick = length <= 2 (all atoms after the first event), thorough = length <= 3
    # (all atoms after the first two events); their few, long shards run alongside the sequence shards
    tdepth, tfull = (2, 1) if ctx.quick else (3, 2)
    tlabels = tuple(TABLE_EVENTS[i][0] for i in rotate(list(range(len(TABLE_EVENTS))), ctx.seed))
    mixed = [("tables", (l, tdepth, tfull, tlabels, i == 0)) for i, l in enumerate(tlabels)] + [("seq", a) for a in shards]
    # first access through a key of another type: one forked copy of the untouched state per (table, atom, key)
    mixed += [("first", (chunk,)) for chunk in common.chunks(rotate(first_items(), ctx.seed), 8)]
    # module attributes: define_elements histories of the public and two private tables into four kinds of namespace
    ndepth = 3 if ctx.quick else 4
    nlabels = tuple(rotate(list(NS_EVENTS), ctx.seed))
    mixed += [("namespace", (kind, ndepth, nlabels)) for kind, _ in NS_KINDS]
    for acc in common.pmap(_mixed_shard, mixed, jobs, "C08 sequences + tables"):
        ctx.acc.merge(acc)
    ctx.acc.info["table_construction_depth"] = tdepth
    ctx.acc.info["namespace_history_depth"] = ndepth
    for k, what in (("restore_first_not_applicable", "sweep variant restore-first"),
                    ("unpickle_first_not_applicable", "sequence event unpickle-first")):
        if ctx.acc.info.get(k):
            ctx.acc.cap("%s not applicable to this implementation in %d cases (the renamed pickle is not "
                        "what the library writes)" % (what, ctx.acc.info[k]))
    ctx.log("sequences and table constructions done: %d violations" % ctx.acc.vcount)
    names = [n for n, _ in LOADERS]
    hists = [(a,) for a in names] + [(a, b) for a in names for b in names]
    if not ctx.quick:
        hists += [(a, b, c) for a in names for b in names for c in names]
    for acc in common.pmap(_loader_path, [(h,) for h in rotate(hists, ctx.seed)], jobs, "C08 loaders"):
        ctx.acc.merge(acc)
    ctx.acc.info["sequence_depth"] = depth
    ctx.acc.info["sequence_alphabet"] = len(EVENTS)
    ctx.acc.traces = ctx.acc.transitions


def replay(ctx, case, signature=None):
    acc = Acc()
    try:
        _replay(acc, case)
    finally:
        # the whole element / history is re-run; only the recorded signature decides the replay
        if signature is not None:
            acc.viol = dict((k, v) for k, v in acc.viol.items() if k == signature)
        ctx.acc.merge(acc)


def _replay(acc, case):
    if case.get("part") == "sequence":
        run_path(tuple(case["history"]), acc)
        return
    if case.get("part") == "tables":
        from ..histmc import in_fork
        def go():
            a = Acc()
            run_tab_path(tuple(case["history"]), int(case.get("full_depth", 1)), a)
            return a
        acc.merge(in_fork(go))
        return
    if case.get("part") == "first-access":
        from ..histmc import in_fork
        def go():
            a = Acc()
            ns, _ = seq_state()
            first_case(ns, case["table"], int(case["atom"]), int(case["key"]), a)
            a.evaluations = a.traces = a.transitions
            return a
        acc.merge(in_fork(go))
        return
    if case.get("part") == "loaders":
        from ..histmc import in_fork
        acc.merge(in_fork(lambda: _loader_path((tuple(case["history"]),))))
        return
    if case.get("part") == "namespace":
        from ..histmc import in_fork
        def go():
            a = Acc()
            run_ns_path(case["namespace"], tuple(case["history"]), a)
            return a
        acc.merge(in_fork(go))
        return
    if case.get("part") != "sweep":
        raise MachineryError("unknown case %r" % (case,))
    sw = Sweep(case["table"], case["variant"], "s" + b36(0, 5), "r" + b36(0, 5), acc)
    if case.get("table_wide") or "Z" not in case or (case.get("route") == "table[Z]" and "key" not in case):
        sw.table_wide()
    else:
        sw.element(case["Z"])
