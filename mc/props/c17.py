"""C17 - the composite SLD calculator equals the direct calculation on the weighted sum
(E1 over material lists x weights x density x wavelength forms; DESIGN section 4, C17).

State  = (ordered list of materials with repetition, weight vector, density, form of the wavelength
         argument).  One calculator is built per (list, wavelength form) and applied to every
         (weights, density) - exactly the way the calculator is meant to be used.
Oracle = differential: nsf.neutron_composite_sld(materials, wavelength)(weights, density) against
         nsf.neutron_sld({atom: sum_i w_i * count_i}, density, wavelength) - the second route the
         statement names - for the real, imaginary and incoherent SLD; every output has the shape of
         the wavelength argument whenever the result is not the vacuum; zero total weight or zero
         density gives zeros (of any shape).
History = calls that follow other calls (only on calculators whose every single call was right): the caller keeps
         ONE weight array and updates it in place (every ordered pair of states as consecutive calls), overwrites the
         arrays it got back, and uses two calculators over the same materials alternately with the same array; every
         call inside a history is judged against the record of the same (weights, density) from the first pass.
Results  = what a calculator hands out belongs to the caller: every series of 2..3 calls over {a calculator, a second
         calculator (created again from the same list and the same wavelength object, or with another wavelength form)}
         x {two different (weights, density), a vacuum} - every result is judged when returned, kept, and compared byte for
         byte with its snapshot after every later refill of the weight array and every later call of either calculator.
Arguments = the materials list, the Formula objects, the wavelength argument and the weight array are compared with
         their state before the call.
Creation = the calculator is precomputed for the list and the wavelength it was CREATED with: the caller edits its
         list of materials (replace a member, reverse, append, clear) or its wavelength array / list (scale,
         overwrite) in place between creation and first evaluation, or between two evaluations; every evaluation
         is judged against the records for the creation-time list and wavelength.
Derived  = material objects are reused: m is looked at and used in a calculator, THEN 6*m, m+o, o+m are built or m
         is extended in place (m += o) and the derived material is used in a second calculator (alone, with m, after
         o) at the same or another wavelength argument; the second calculator is judged against the direct route on
         the composition the check computes itself, the first one is judged again.
Sweeps   = single calls (all weights, densities, wavelength forms) over two further material alphabets: every
         energy-dependent atom of the library (element and isotope forms, neutral and 3+ ion) as the only tabulated atom
         of a material and of a list, and as one of two; materials with fractional or very large atom counts in every
         position of lists of 1..3; the SCALE of the weights and of the density: base weight vectors times factors
         1e-15 .. 1e12, densities 1e-12 .. 1e3 - the answer is that of the direct route on the same scaled sum, of the shape
         of the wavelength argument, and only an exactly zero weight sum or density is a vacuum."""
import copy
import itertools
import math

import numpy as np

from ..common import Acc, load_pt, chunks, rotate, MachineryError

META = dict(
    level="model_checking", engine="E1",
    technique="bounded-exhaustive enumeration of material lists x weight vectors x densities x wavelength "
              "argument forms on the real calculator, and of all two-call histories on one calculator (reused / "
              "in-place updated weight array, overwritten outputs, a second live calculator), differential against "
              "the direct calculation",
    rule=("every ordered list (with repetition) of the bound over 12 materials (light and heavy water, an oxide, a "
          "strong 1/v absorber, three energy-dependent rare-earth materials of which pure Lu[176] has "
          "sigma_s == sigma_c, two negative-b metals, Au whose tabulated sigma_s is smaller than sigma_c so "
          "that sigma_i really clips at zero, and two different materials that print the same), every weight vector "
          "over {0, 0.5, 1, 3}^n, every density "
          "of {0, 1, 2.5}, every form of the wavelength argument; one calculator per (list, form); non-trivial = "
          "non-zero total weight and non-zero density, so that three value vectors and three shapes are compared.  "
          "HISTORIES on calculators whose every single call was right: (a) the caller keeps ONE weight array and "
          "updates it in place before every call - a de Bruijn walk makes every ordered pair of (weights, density) "
          "states a pair of consecutive calls; (b) every returned array is overwritten by the caller, then the same "
          "and the next state are asked for; (c) two calculators over the same material objects (two wavelength "
          "forms) are called alternately with the same reused array, every ordered pair of weight vectors in both "
          "roles; a history case is non-trivial when the judged call is not a vacuum and differs from the call "
          "before it; (d) CALL SERIES: every sequence of 2..3 calls over {this calculator, a second calculator} x "
          "{(1..1; 1), ((3, 0.5, 1); 2.5), ((3, 0.5, 1); 0)} with one caller-owned weight array refilled before every "
          "call; the second calculator is once a second creation from the same list, Formula objects and wavelength "
          "object, once the calculator of the next wavelength form; every result is judged at return (or is "
          "bit-identical to a judged result of the same calculator and argument), kept, and compared byte for byte "
          "(dtype, shape, bytes) with its snapshot after the next refill of the weight array and after EVERY later "
          "call of either calculator; a series is non-trivial when a non-vacuum call follows a kept result.  "
          "ARGUMENTS: the materials list, every Formula in it (structure with atoms by identity, "
          "density, name, text) and the wavelength argument are compared with their state before the constructor "
          "and again after all calls; the weight array is compared byte for byte after every call.  CREATION-TIME "
          "VALUES: for every calculator of a list of length <= 2 whose single calls were right, a new calculator is "
          "created on the caller's own list object and wavelength buffer, which are then edited in place (4 list "
          "edits, 2 buffer edits for array / list wavelengths) before the first or between two evaluations; all "
          "(weights, density) states are evaluated and judged against the untouched calculator's records.  DERIVED "
          "MATERIALS: (base m of 6) x (other o of 2) x (6*m | m+o | o+m | m+=o) x (first calculator [m] | [m,o]) x "
          "(second calculator [d] | [d,m] | [o,d]) x 5 pairs of wavelength forms on fresh Formula objects; m is read "
          "(str, mass, atoms, hill) and used once, then d is derived and used; weights {0, 1, 3}^n x density {1, 2.5} "
          "on the second calculator and again on the first; each derivation is first executed on objects that were "
          "never used (control, plain signatures).  SWEEPS (single calls, 4^n weights x 3 densities x all wavelength forms): "
          "(a) every atom X whose scattering length varies with the wavelength (the keys of the pinned energy tables, "
          "natural Lu whose table is derived when the data are attached, and any atom of the tree that carries a table), "
          "neutral and as X{3+}: lists [X], [X2O3], [X, X], [X, H2O], [H2O, X], [X2O3, H2O], [H2O, X2O3], [X2O3, X], and for "
          "neutral X the three positions of X among H2O, Au; every ordered pair [X, Y] of two different such atoms, and "
          "every unordered pair inside one material [XY3], [XY3, H2O]; (b) materials whose atoms per formula unit are not "
          "a whole number (Fe0.947O, Ce0.9Gd0.1O1.95, H0.5 with a total below one, Ni0.7Cu0.2Zn0.1 whose total is "
          "0.9999999999999999) or exceed 32 bits (C4294967297H8589934596): all lists of length 1..2 over these five and "
          "H2O, Gd2O3, Au, and all lists of length 3 over the first three, H2O and Gd2O3, that contain at least one of them; "
          "(c) SCALE of the weights and of the density (signatures 'scale:...'): 9 lists of 1..3 materials (constant, "
          "energy-dependent, negative-b, sigma_i clipped) x every base vector of {0, 0.5, 3}^n (a weight exactly 0 among "
          "positive ones, and the all-zero vector) x factor k of {1e-15, 1e-11, 1e-6, 1, 1e6, 1e12} x density of {0, 1e-12, "
          "1e-6, 1, 1e3} x all nine wavelength forms: calc(k*base, rho) against the direct route on sum_i k*base_i*material_i "
          "at rho with the same relative tolerances (no absolute term), every output of the shape of the wavelength "
          "argument; a vacuum (zeros) exactly when the weight sum or the density is exactly zero; non-trivial = both positive"),
    bound=dict(
        quick="all 156 lists of length 1..2 and the 408 lists of length 3 in which a material is repeated; 4^n weight "
              "vectors; 3 densities; wavelength forms default, float, "
              "int, float beyond the resonance tables, length-1 array, length-4 array, length-4 list, length-4 tuple, "
              "array whose length equals the number of materials.  Histories: the lists among these over the 6 "
              "materials H2O, B4C, Gd2O3, Lu[176], Au, C15D31(named) x forms {default, float, length-4 array, "
              "length-n array}; n <= 2: all 12 / 48 states, i.e. 144 / 2304 ordered pairs; n = 3: weights {0, 1}^3 x "
              "density {1, 2.5}, 256 ordered pairs.  Call series: the same lists x forms {default, float, length-1 / length-4 / "
              "length-n array} x 2 second calculators x all 36 + 216 series of 2..3 calls over 2 calculators x 3 "
              "arguments.  Creation-time values: the 42 lists of length <= 2 over these 6 materials x "
              "forms {default, float, length-1 / length-4 / length-n array, length-4 list} x 4-6 edits x 2 timings x all "
              "states.  Derived materials: 1320 histories + 528 controls.  Sweeps: 15 energy-dependent atoms x {neutral, "
              "3+} -> 285 lists with one tabulated atom, 420 lists with two; 177 lists with fractional / large counts; "
              "all nine wavelength forms, all weights and densities; 9 scale lists x (3^n - 1) x 6 factors x 5 densities "
              "(+ 5 all-zero states) x nine forms = 30195 single calls, 23328 of them not a vacuum",
        thorough="all 1884 lists of length 1..3; 4^n weight vectors; 3 densities; the same nine wavelength forms.  "
                 "Histories: every list of length 1..2 with all states and all nine forms; lists of 3 over the 6 "
                 "materials above with weights {0, 1, 3}^3 x density {1, 2.5} (2916 ordered pairs), all nine forms.  Call series: "
                 "these lists x all nine forms x 2 second calculators x all 64 + 512 series of 2..3 calls over 2 "
                 "calculators x 4 arguments.  "
                 "Creation-time values: all 156 lists of length <= 2 x all nine forms.  Derived materials as in quick.  "
                 "Sweeps as in quick"),
    assumptions=[
        "the formula sum_i w_i*material_i is handed to neutron_sld as the atom dictionary {atom: sum_i w_i*count_i} "
        "built by the check from each material's .atoms (formula arithmetic itself is C02)",
        "weights are float numpy vectors (the calculator indexes weights[:, None]); density is passed by keyword",
        "materials are Formula objects without density (the calculator documents that it ignores it)",
        "real part: 1e-9 of (10/V) sum n_k |Re b_k|; imaginary part: 1e-9 of (10/V) sum n_k |Im b_k|; incoherent "
        "part: compared through sigma_i = (rho_inc / (10 N))^2 * 4 pi/100 with relative 1e-9 plus absolute "
        "1e-12 * sigma_s (sigma_i is a clipped difference under a root; pure Lu[176] has sigma_s == sigma_c)",
        "in the vacuum cases only 'all outputs are zero' is judged, not their shape (the statement gives zeros)",
        "the shape of the direct route's outputs is not judged here (C04); it is broadcast to the calculator's",
        "per-atom b_c(lambda) and sigma_s(lambda) enter only the tolerance scales, read through "
        "Neutron.scattering_by_wavelength",
        "a calculator answers for the list of materials and the wavelengths it was CREATED with: the statement speaks of "
        "'the precomputed calculator' for a list of materials and a wavelength, and the docstring of "
        "neutron_composite_sld says 'Table lookups and partial sums and constants are precomputed' - so a later in-place "
        "edit of the caller's list object or wavelength array / list must not change what the calculator returns.  What "
        "a calculator should return after one of its MATERIAL objects was itself changed in place (m += o, m.density = x) "
        "is not in the statement (which composition 'material_i' then means is open): after m += o the calculator that was "
        "created with m is not judged any more; calculators created afterwards are judged for the extended m",
        "a derived material is the composition the check computes itself from the operands' .atoms (n*q; sums); if "
        "the library's n*m / m+o reports other atoms (formula arithmetic, C02) the history is counted and not judged",
        "'unaltered argument' means the values a caller can read (list members by identity, Formula structure / "
        "density / name / text, array bytes), not private attributes the library might attach to its own objects",
        "a result handed out by the calculator is the caller's from then on (the statement says what the calculator "
        "RETURNS; a returned value that changes when the calculator is used again, or when the caller refills its own "
        "weight array, is not that value any more): kept results are compared by dtype, shape and bytes",
        "sweeps: counts up to 2^33 (exactly representable; a polymer), not beyond 2^53; ions of the energy-dependent atoms "
        "are the 3+ ions (every such element lists charge 3); the sweeps make single calls only (histories do not depend on "
        "which atoms a material is made of beyond what the history materials already cover)",
        "scale sweep: the factors stop at 1e-15 and 1e12 and the densities at 1e-12 and 1e3 (sum w_i*M_i*rho stays "
        "between 1e-27 and 1e18, far from under- and overflow: what the calculator does with denormal products is not in "
        "the statement); one common factor for all weights of a call (ratios between weights stay those of {0, 0.5, 3}); "
        "single calls only; the direct route on the scaled sum is trusted to be scale invariant itself (C03), the check "
        "does not compare calc(k*w) with calc(w)",
        "histories longer than two calls are covered as they occur inside the walks (each call is judged, but "
        "not every triple of states occurs) and exhaustively up to three calls over the 3-4 arguments of the call series; private tables are not in the alphabet (the calculator has no table= "
        "argument; per-table data is C10 / C20)",
    ],
    level_text="every member of the stated finite space was executed on the real calculator and compared with the "
               "direct route; the calculator is a fixed sequence of array operations whose only data-dependent "
               "branches are the vacuum test, the clip of sigma_i at zero and scalar-vs-sequence wavelength, all "
               "of which are taken both ways inside the bound; nothing is claimed for longer lists except through "
               "the small-scope argument (sums over the list axis, broadcast over the wavelength axis); a calculator "
               "that remembers anything of an earlier call, of the caller's array or of a sibling calculator is "
               "exposed by the pair walks, in which every state follows every state; a calculator that hands out "
               "storage it goes on using is exposed by the call series, in which every kept result is read again "
               "after every later call",
    level_note="trusted: nsf.neutron_sld on an explicit atom dictionary (C03) as the reference route; numpy",
)

MATERIALS = ("H2O", "D2O", "SiO2", "B4C", "Gd2O3", "Sm[149]O", "Lu[176]", "V", "Ti", "Au",
             # two DIFFERENT materials that print the same (a named formula prints its name): anything keyed on
             # str(material) confuses them
             "C15H31 name=tail", "C15D31 name=tail")


def material_formula(formula, spec):
    text, _, name = spec.partition(" name=")
    return formula(text, name=name) if name else formula(text)


def material_code(spec):
    text, _, name = spec.partition(" name=")
    return "formula(%r, name=%r)" % (text, name) if name else "formula(%r)" % text
WEIGHTS = (0, 0.5, 1, 3)
DENSITIES = (0, 1, 2.5)
REL = 1e-9
ABS_SIGMA = 1e-12
_4PI_100 = 4 * math.pi / 100

FORMS_QUICK = ("default", "float", "int", "float-long", "arr1", "arr4", "list4", "tuple4", "arrN")
FORMS_THOROUGH = FORMS_QUICK
_ARR_N = (0.7, 2.4, 1.1)


def wavelength_arg(form, n):
    """(the argument to pass or None for 'omit', shape every output must have, kind for signatures)."""
    if form == "default":
        return None, (), "default"
    if form == "float":
        return 0.9, (), "scalar"
    if form == "int":
        return 2, (), "scalar"
    if form == "float-long":
        return 6.0, (), "scalar"
    if form == "arr1":
        return np.array([2.2]), (1,), "vector"
    if form == "arr4":
        return np.array([0.5, 1.0, 1.798, 4.75]), (4,), "vector"
    if form == "list4":
        return [4.75, 0.45, 1.3, 2.0], (4,), "vector"
    if form == "tuple4":
        return (0.6, 3.0, 1.798, 0.41), (4,), "vector"
    if form == "arrN":
        return np.array(_ARR_N[:n]), (n,), "vector"
    raise MachineryError("unknown wavelength form %r" % (form,))


def _wl_code(form, n):
    w, _, _ = wavelength_arg(form, n)
    if w is None:
        return None
    if isinstance(w, np.ndarray):
        return "np.array(%r)" % (w.tolist(),)
    return repr(w)


class Env(object):
    def __init__(self):
        self.pt = load_pt()
        from periodictable import nsf, formula, constants
        self.nsf = nsf
        self.NA = constants.avogadro_number
        self.F = [material_formula(formula, s) for s in MATERIALS]
        self.atoms = [list(f.atoms.items()) for f in self.F]
        self.seen = [formula_state(f) for f in self.F]
        self.default_wavelength = nsf.ABSORPTION_WAVELENGTH
        self.pre = []              # lines of a stand-alone script that come before 'materials = [...]'

    def name(self, i):
        return MATERIALS[i]

    def code(self, i):
        return material_code(MATERIALS[i])

    def pyname(self, a):
        q = getattr(a, "charge", 0)
        if q:
            return "%s.ion[%d]" % (self.pyname(a.element), q)       # the element or isotope the ion is an ion of
        if hasattr(a, "isotope"):
            if a.symbol in ("D", "T"):
                return "pt.%s" % a.symbol
            return "pt.%s[%d]" % (a.element.symbol, a.isotope)
        return "pt.%s" % a.symbol


def _skey(structure):
    """A formula structure with its atoms by identity (an equal atom of another table is another atom)."""
    return tuple((float(c), _skey(x) if isinstance(x, (tuple, list)) else (id(x), str(x))) for c, x in structure)


def formula_state(f):
    """What a caller can see of a Formula object: structure (atoms by identity), density, name, text.  Not its
    __dict__: private memo attributes would be the library's own business."""
    return (_skey(f.structure), f.density, f.name, str(f))


def arg_state(x):
    """Value of a caller-owned argument: array bytes, list / tuple contents."""
    if isinstance(x, np.ndarray):
        return ("ndarray", x.dtype.str, x.shape, x.tobytes())
    if isinstance(x, (list, tuple)):
        return (type(x).__name__, tuple(arg_state(v) for v in x))
    return ("value", repr(x))


def result_state(leaves):
    """What a caller can read of the three values a calculator handed out (array dtype / shape / bytes)."""
    return tuple(((g.dtype.str, g.shape, g.tobytes()) if isinstance(g, np.ndarray) else repr(g)) for g in leaves)


def show_state(snap):
    return [np.frombuffer(x[2], dtype=x[0]).reshape(x[1]).tolist() if isinstance(x, tuple) else x for x in snap]


def series_args(n, tier):
    """the (weights, density) arguments of the call series: two different materials-in-bulk, (thorough: a third,) and a
    vacuum by density"""
    a = ((1,) * n, 1)
    b = ((3, 0.5, 1)[:n], 2.5)
    c = ((0.5, 1, 0)[:n], 1)
    z = ((3, 0.5, 1)[:n], 0)
    return [a, b, z] if tier == "quick" else [a, b, c, z]


SERIES_DEPTH = 3
SERIES_FORMS_QUICK = ("default", "float", "arr1", "arr4", "arrN")


def de_bruijn_pairs(k):
    """Cyclic sequence over range(k) of length k*k in which every ordered pair (a, b), a == b included, occurs
    exactly once as two consecutive members (Fredricksen-Kessler-Maiorana); returned with its first member
    appended, so that the k*k consecutive pairs of the LIST are all ordered pairs."""
    a = [0] * (2 * k)
    seq = []

    def db(t, p):
        if t > 2:
            if 2 % p == 0:
                seq.extend(a[1:p + 1])
        else:
            a[t] = a[t - p]
            db(t + 1, p)
            for j in range(a[t - p] + 1, k):
                a[t] = j
                db(t + 1, t)
    db(1, 1)
    seq.append(seq[0])
    pairs = set(zip(seq, seq[1:]))
    if len(seq) != k * k + 1 or len(pairs) != k * k:
        raise MachineryError("de Bruijn walk over %d states covers %d of %d ordered pairs" % (k, len(pairs), k * k))
    return seq


_WALKS = {}


def pair_walk(k):
    if k not in _WALKS:
        _WALKS[k] = de_bruijn_pairs(k)
    return _WALKS[k]


def all_lists(maxlen):
    out = []
    for n in range(1, maxlen + 1):
        out.extend(itertools.product(range(len(MATERIALS)), repeat=n))
    return out


def repeated_triples():
    """All lists of length 3 in which some material occurs more than once ([A,A,B], [A,B,A], [A,B,B],
    [A,A,A]): the shortest lists in which a repeated material is not adjacent to / not all of the list."""
    return [t for t in itertools.product(range(len(MATERIALS)), repeat=3) if len(set(t)) < 3]


def _snippet(E, mats, weights, density, form):
    n = len(mats)
    wl = _wl_code(form, n)
    atoms = {}
    for i, w in zip(mats, weights):
        for a, q in E.atoms[i]:
            if w * q != 0:
                atoms[a] = atoms.get(a, 0) + w * q
    ad = "{%s}" % ", ".join("%s: %r" % (E.pyname(a), float(c)) for a, c in atoms.items())
    lines = ["import numpy as np", "import periodictable as pt", "from periodictable import formula, nsf"] + list(E.pre) + [
             "materials = [%s]" % ", ".join(E.code(i) for i in mats),
             "calc = nsf.neutron_composite_sld(materials%s)" % ("" if wl is None else ", wavelength=%s" % wl),
             "print(calc(np.array(%r), density=%r))" % ([float(w) for w in weights], density),
             "print(nsf.neutron_sld(%s, density=%r%s))" % (ad, density, "" if wl is None else ", wavelength=%s" % wl)]
    return "\n".join(lines) + "\n"


class ListCheck(object):
    """One (material list, wavelength form): the calculator and the per-material tolerance scales."""
    def __init__(self, E, mats, form):
        self.E, self.mats, self.form = E, tuple(mats), form
        n = len(mats)
        self.wl, self.shape, self.kind = wavelength_arg(form, n)
        wl_values = np.atleast_1d(np.asarray(E.default_wavelength if self.wl is None else self.wl, dtype=float))
        self.wl_values = wl_values
        # per material: atoms, mass and the sums of magnitudes that scale the tolerances
        self.n_atoms, self.mass, self.abs_re, self.abs_im, self.sig, self.bsum = [], [], [], [], [], []
        for i in mats:
            na = m = 0.0
            are = np.zeros(len(wl_values)); aim = np.zeros(len(wl_values)); sg = np.zeros(len(wl_values))
            bs = np.zeros(len(wl_values), dtype=complex)
            for a, q in E.atoms[i]:
                b, s = a.neutron.scattering_by_wavelength(wl_values)
                b = np.asarray(b, dtype=complex) * np.ones(len(wl_values))
                na += q; m += q * a.mass
                are += q * abs(b.real); aim += q * abs(b.imag); sg += q * np.asarray(s, dtype=float)
                bs += q * b
            self.n_atoms.append(na); self.mass.append(m)
            self.abs_re.append(are); self.abs_im.append(aim); self.sig.append(sg); self.bsum.append(bs)
        self.calc = None
        self.recs = {}

    def case(self, weights=None, density=None):
        c = dict(materials=[self.E.name(i) for i in self.mats], wl=self.form)
        c.update(getattr(self.E, "case_extra", {}))
        if weights is not None:
            c["weights"] = [float(w) for w in weights]
            c["density"] = density
        return c

    def build(self, acc):
        E = self.E
        mats = [E.F[i] for i in self.mats]
        wl_before = arg_state(self.wl)
        acc.evaluations += 1
        try:
            with np.errstate(all="ignore"):
                if self.wl is None:
                    self.calc = E.nsf.neutron_composite_sld(mats)
                else:
                    self.calc = E.nsf.neutron_composite_sld(mats, wavelength=self.wl)
        except Exception as e:
            acc.violation("constructor-raises:%s:%s" % (type(e).__name__, self.kind), self.case(),
                          expected="a calculator", observed="%s: %s" % (type(e).__name__, e),
                          standalone=_snippet(E, self.mats, [1] * len(self.mats), 1, self.form))
            return False
        self._mats, self._wl_before = mats, wl_before
        return self.arguments_intact(acc, mats, wl_before, "constructor")

    def arguments_intact(self, acc, mats, wl_before, when):
        """The caller's list of materials, the Formula objects in it and the wavelength argument are as before."""
        E = self.E
        snip = _snippet(E, self.mats, [1] * len(self.mats), 1, self.form)
        if len(mats) != len(self.mats) or any(m is not E.F[i] for m, i in zip(mats, self.mats)):
            acc.violation("argument-altered:%s:materials-list" % when, self.case(),
                          expected=[E.name(i) for i in self.mats], observed=[str(m) for m in mats], standalone=snip)
            return False
        for i in self.mats:
            now = formula_state(E.F[i])
            if now != E.seen[i]:
                acc.violation("argument-altered:%s:material-formula" % when, self.case(),
                              expected=repr(E.seen[i][1:]), observed=repr(now[1:]), standalone=snip,
                              detail="structure (atoms by identity) %s" % ("unchanged" if now[0] == E.seen[i][0]
                                                                           else "changed"))
                return False
        if arg_state(self.wl) != wl_before:
            acc.violation("argument-altered:%s:wavelength:%s" % (when, self.form), self.case(),
                          expected=repr(wl_before[-1]), observed=repr(arg_state(self.wl)[-1]), standalone=snip)
            return False
        return True

    def expect(self, weights, density):
        """What the direct route says for (weights, density): a record, computed once per calculator.
        vacuum -> dict(vacuum=why); else dict(exp=[3 arrays] or None (direct route's shape cannot be broadcast: not
        judged), scales, class of the incoherent term)."""
        key = (tuple(float(x) for x in weights), float(density))
        rec = self.recs.get(key)
        if rec is not None:
            return rec
        E = self.E
        total_mass = sum(wi * m for wi, m in zip(weights, self.mass))
        if total_mass == 0 or density == 0:
            rec = dict(vacuum="zero-weight" if total_mass == 0 else "zero-density")
            self.recs[key] = rec
            return rec
        atoms = {}
        for i, wi in zip(self.mats, weights):
            if wi == 0:
                continue
            for a, q in E.atoms[i]:
                atoms[a] = atoms.get(a, 0) + wi * q
        with np.errstate(all="ignore"):
            if self.wl is None:
                exp = E.nsf.neutron_sld(atoms, density=density)
            else:
                exp = E.nsf.neutron_sld(atoms, density=density, wavelength=self.wl)
        try:
            exp = [np.array(np.broadcast_to(np.asarray(x, dtype=float), self.shape)) for x in exp]
        except ValueError:
            exp = None
        # scales (sums of magnitudes of the terms)
        n_atoms = sum(wi * x for wi, x in zip(weights, self.n_atoms))
        per_volume = density * E.NA * 1e-24 / total_mass          # formula units per cubic Angstrom
        number_density = n_atoms * per_volume
        sc_re = 10 * per_volume * sum(wi * x for wi, x in zip(weights, self.abs_re))
        sc_im = 10 * per_volume * sum(wi * x for wi, x in zip(weights, self.abs_im))
        sigma_s = sum(wi * x for wi, x in zip(weights, self.sig)) / n_atoms
        sc_re, sc_im, sigma_s = [np.asarray(x).reshape(self.shape) for x in (sc_re, sc_im, sigma_s)]
        # class of the incoherent term, for the outcome histogram and the signature
        b = sum(wi * x for wi, x in zip(weights, self.bsum)) / n_atoms
        diff = sigma_s - _4PI_100 * abs(np.asarray(b).reshape(self.shape)) ** 2
        pos = diff > ABS_SIGMA * sigma_s
        cls = "positive" if np.all(pos) else "clipped-or-noise" if not np.any(pos) else "both"
        rec = dict(vacuum=None, exp=exp, number_density=number_density, sc_re=sc_re, sc_im=sc_im, sigma_s=sigma_s,
                   cls=cls)
        if exp is not None:
            rec["si_e"] = (exp[2] / (10 * number_density)) ** 2 * _4PI_100
        self.recs[key] = rec
        return rec

    def judge(self, acc, got, rec, case, snip, history=None):
        """Compare what the calculator returned with the record of expect().  history = None: the call stands
        alone (signatures name the part that is wrong); history = a signature: the same (weights, density) was
        right with a fresh array on a calculator without history, so a difference is named after the history."""
        def sig(alone):
            return history if history else alone

        def extra(part):
            return dict(case, part=part) if history else case
        if rec["vacuum"]:
            why = rec["vacuum"]
            if not all(np.all(np.asarray(g) == 0) for g in got):
                acc.violation(sig("vacuum-not-zero:%s:%s" % (why, self.kind)), extra("vacuum:" + why), expected=[0, 0, 0],
                              observed=[np.asarray(g).tolist() for g in got], standalone=snip())
                return False
            if not history:
                acc.outcome("%s:%s:zeros" % (self.form, why))
            return True
        # shapes
        for name, g in zip(("real", "imaginary", "incoherent"), got):
            if np.shape(g) != self.shape:
                acc.violation(sig("shape:%s:%s" % (self.form if self.form != "arrN" else "arrN", name)),
                              extra("shape:" + name), expected=list(self.shape), observed=list(np.shape(g)),
                              standalone=snip())
                return False
        exp = rec["exp"]
        if exp is None:
            if not history:
                acc.count("direct_route_shape_not_broadcastable_not_judged")
            return True
        got = [np.asarray(g, dtype=float) for g in got]
        for name, g, e, sc in (("real", got[0], exp[0], rec["sc_re"]), ("imaginary", got[1], exp[1], rec["sc_im"])):
            ok = np.abs(g - e) <= REL * np.maximum(np.maximum(np.abs(sc), np.abs(g)), np.abs(e)) + 1e-300
            if not np.all(ok):          # NaN compares False
                acc.violation(sig("%s:%s" % (name, self.kind)), extra(name), expected=e.tolist(), observed=g.tolist(),
                              standalone=snip(), detail="scale %r" % (np.asarray(sc).tolist(),))
                return False
        sigma_s, cls = rec["sigma_s"], rec["cls"]
        si_g = (got[2] / (10 * rec["number_density"])) ** 2 * _4PI_100
        si_e = rec["si_e"]
        ok = np.abs(si_g - si_e) <= REL * np.maximum(si_g, si_e) + ABS_SIGMA * sigma_s + 1e-300
        if not np.all(ok) or np.any(got[2] < 0):
            acc.violation(sig("incoherent:%s:sigma_i-%s" % (self.kind, cls)), extra("incoherent"),
                          expected=exp[2].tolist(), observed=got[2].tolist(), standalone=snip(),
                          detail="sigma_i expected %r observed %r, sigma_s %r"
                                 % (np.asarray(si_e).tolist(), np.asarray(si_g).tolist(), np.asarray(sigma_s).tolist()))
            return False
        if not history:
            acc.outcome("%s:values:sigma_i-%s" % (self.form, cls))
        return True

    def call(self, acc, w, density, case, snip, history=None):
        """One application of the calculator to the caller's array w; the array must come back as it went in.
        Returns the three outputs or None after a violation."""
        before = w.tobytes()
        try:
            with np.errstate(all="ignore"):
                got = self.calc(w, density=density)
            got = tuple(got)
            if len(got) != 3:
                raise ValueError("calculator returned %d values" % len(got))
        except Exception as e:
            acc.violation(history or "raises:%s:%s" % (type(e).__name__, self.kind),
                          dict(case, part="raises") if history else case,
                          expected="(real, imaginary, incoherent)", observed="%s: %s" % (type(e).__name__, e),
                          standalone=snip())
            return None
        if w.tobytes() != before:
            acc.violation("argument-altered:weights:%s" % self.kind, case,
                          expected=np.frombuffer(before, dtype=w.dtype).tolist(), observed=w.tolist(), standalone=snip())
            return None
        return got

    def check(self, acc, weights, density):
        """One application of the calculator (fresh weight array).  Returns False on a violation."""
        acc.states += 1
        acc.transitions += 1
        acc.evaluations += 2
        w = np.array(weights, dtype=float)
        case = self.case(weights, density)
        snip = lambda: _snippet(self.E, self.mats, weights, density, self.form)
        got = self.call(acc, w, density, case, snip)
        if got is None:
            return False
        rec = self.expect(weights, density)
        if not rec["vacuum"]:
            acc.nontrivial += 1
        return self.judge(acc, got, rec, case, snip)


    # ------------------------------------------------------------------ histories on one calculator
    def history_case(self, mode, prev, cur, **extra):
        c = self.case(cur[0], cur[1])
        c["mode"] = mode
        c["previous"] = [[float(x) for x in prev[0]], prev[1]]
        c.update(extra)
        return c

    def history_snippet(self, mode, prev, cur, other=None):
        E, n = self.E, len(self.mats)
        wl = _wl_code(self.form, n)
        lines = _snippet(E, self.mats, cur[0], cur[1], self.form).rstrip("\n").split("\n")
        head, last, direct = lines[:-2], lines[-2], lines[-1]
        pw, pd = [float(x) for x in prev[0]], prev[1]
        cw, cd = [float(x) for x in cur[0]], cur[1]
        if mode == "reuse":
            body = ["w = np.array(%r)" % (pw,), "calc(w, density=%r)" % (pd,),
                    "w[:] = %r          # the caller updates the same array in place" % (cw,),
                    "print(calc(w, density=%r))" % (cd,)]
        elif mode == "two":
            wl2 = _wl_code(other.form, n)
            body = ["calc2 = nsf.neutron_composite_sld(materials%s)" % ("" if wl2 is None else ", wavelength=%s" % wl2),
                    "w = np.array(%r)" % (pw,), "calc2(w, density=%r)" % (pd,), "w[:] = %r" % (cw,),
                    "print(calc(w, density=%r))" % (cd,)]
        else:
            body = ["out = calc(np.array(%r), density=%r)" % (pw, pd),
                    "for x in out:", "    if isinstance(x, np.ndarray): x[...] = %r    # the caller's own arrays now" % SCRIBBLE,
                    "print(calc(np.array(%r), density=%r))" % (cw, cd)]
        return "\n".join(head + body + [direct]) + "\n"

    def step(self, acc, w, state, prev, mode, signature, other=None, judged_by=None):
        """One call inside a history.  The expectation of (weights, density) was established by a call with a
        fresh array (first pass); whatever differs now is due to the history and is named after it."""
        lc = judged_by or self
        weights, density = state
        acc.transitions += 1
        acc.evaluations += 1
        if prev is not None:
            acc.states += 1                 # a history (previous call, this call) is one case
        case = lc.history_case(mode, prev if prev is not None else state, state,
                               **(dict(wl2=other.form) if other is not None else {}))
        snip = lambda: lc.history_snippet(mode, prev if prev is not None else state, state, other)
        got = lc.call(acc, w, density, case, snip, history=signature)
        if got is None:
            return None
        rec = lc.expect(weights, density)
        if prev is not None and not rec["vacuum"] and prev != state:
            acc.nontrivial += 1
        if not lc.judge(acc, got, rec, case, snip, history=signature):
            return None
        return got

    def reuse_walk(self, acc, states, seq):
        """The caller keeps ONE weight array and updates it in place before every call (a fit loop): every ordered
        pair of states is a pair of consecutive calls."""
        w = np.zeros(len(self.mats))
        prev = None
        for idx in seq:
            w[:] = states[idx][0]
            if self.step(acc, w, states[idx], prev, "reuse", "history:reused-weights-array:%s" % self.kind) is None:
                return False
            prev = states[idx]
        acc.outcome("history:reused-weights-array:%s:ok" % self.kind)
        return True

    def two_walk(self, acc, other, wvecs, dens, seq):
        """Two calculators over the same material objects (another wavelength form) are alive at the same time and
        are called alternately with the same, reused, weight array: every ordered pair of weight vectors occurs
        once as (this, other) and once as (other, this)."""
        w = np.zeros(len(self.mats))
        for phase in (0, 1):
            prev = None
            for t, idx in enumerate(seq):
                lc, ot = (self, other) if (t + phase) % 2 == 0 else (other, self)
                state = (wvecs[idx], dens[(t + phase) % len(dens)])
                w[:] = state[0]
                if self.step(acc, w, state, prev, "two", "history:two-calculators-interleaved:%s-after-%s"
                             % (lc.kind, ot.kind), other=ot, judged_by=lc) is None:
                    return False
                prev = state
        acc.outcome("history:two-calculators-interleaved:%s/%s:ok" % (self.kind, other.kind))
        return True

    def scribble_walk(self, acc, states):
        """What the calculator returns belongs to the caller: every returned array is overwritten after it has
        been judged, then the same state and the next state are asked for (fresh weight arrays)."""
        prev = None
        for state in states:
            for _ in (0, 1):
                w = np.array(state[0], dtype=float)
                got = self.step(acc, w, state, prev, "scribble",
                                "history:caller-writes-into-returned-arrays:%s" % self.kind)
                if got is None:
                    return False
                for g in got:
                    if isinstance(g, np.ndarray) and g.flags.writeable:
                        g[...] = SCRIBBLE
                prev = state
        acc.outcome("history:caller-writes-into-returned-arrays:%s:ok" % self.kind)
        return True


    # ------------------------------------------------------------------ results handed out earlier stay what they were
    def twin(self, acc):
        """A second calculator created by the same caller from the SAME list, Formula objects and wavelength object; it
        shares the records of the first pass (same list, same wavelengths).  None after a violation."""
        t = copy.copy(self)
        mats = [self.E.F[i] for i in self.mats]
        acc.evaluations += 1
        try:
            with np.errstate(all="ignore"):
                t.calc = (self.E.nsf.neutron_composite_sld(mats) if self.wl is None else
                          self.E.nsf.neutron_composite_sld(mats, wavelength=self.wl))
        except Exception as e:
            acc.violation("constructor-raises:second-creation:%s" % self.kind, self.case(), expected="a calculator",
                          observed="%s: %s" % (type(e).__name__, e),
                          standalone=_snippet(self.E, self.mats, [1] * len(self.mats), 1, self.form))
            return None
        t.is_twin = True
        return t

    def series_snippet(self, other, series, show):
        E, n = self.E, len(self.mats)
        lines = _snippet(E, self.mats, series[show][1][0], series[show][1][1], self.form).rstrip("\n").split("\n")
        head = lines[:-2]
        wl2 = _wl_code(other.form, n)
        body = []
        if getattr(other, "is_twin", False) and isinstance(self.wl, (np.ndarray, list, tuple)):
            # the twin was created with the very same wavelength object
            head = head[:-1] + ["wl = %s" % _wl_code(self.form, n), "calc = nsf.neutron_composite_sld(materials, wavelength=wl)"]
            body.append("calc2 = nsf.neutron_composite_sld(materials, wavelength=wl)")
        else:
            body.append("calc2 = nsf.neutron_composite_sld(materials%s)" % ("" if wl2 is None else ", wavelength=%s" % wl2))
        body.append("w = np.zeros(%d)" % n)
        for t, (ci, (wv, d)) in enumerate(series):
            body.append("w[:] = %r; r%d = %s(w, density=%r)" % ([float(x) for x in wv], t + 1, ("calc", "calc2")[ci], d))
        body.append("print(r%d)          # handed out by call %d, read after call %d" % (show + 1, show + 1, len(series)))
        lc = (self, other)[series[show][0]]
        wv, d = series[show][1]
        direct = _snippet(E, lc.mats, wv, d, lc.form).rstrip("\n").split("\n")[-1]
        return "\n".join(head + body + [direct]) + "\n"

    def series_walk(self, acc, other, args, depth, only=None):
        """What a calculator hands out belongs to the caller: EVERY series of 2..`depth` calls over {this calculator, a
        second one} x `args` (the caller keeps one weight array and refills it before each call); every result is
        judged when it is returned, kept, and compared byte for byte with its snapshot after the refill of the weight
        array and after every later call of either calculator."""
        calcs = (self, other)
        n = len(self.mats)
        w = np.zeros(n)
        judged = {}
        kinds = [(ci, ai) for ci in (0, 1) for ai in range(len(args))]
        plans = [only] if only is not None else itertools.chain(*[itertools.product(kinds, repeat=k)
                                                                  for k in range(2, depth + 1)])
        for plan in plans:
            series = [(ci, args[ai]) for ci, ai in plan]
            acc.states += 1
            held = []                    # (calculator index, leaves, snapshot)
            interesting = False
            for t, (ci, ai) in enumerate(plan):
                lc, state = calcs[ci], args[ai]
                case = dict(lc.case(state[0], state[1]), mode="series", wl2=calcs[1 - ci].form,
                            twin=bool(getattr(other, "is_twin", False)), judged_calculator=ci,
                            series=[[c, a] for c, a in plan[:t + 1]],
                            args=[[[float(x) for x in wv], d] for wv, d in args])
                w[:] = state[0]

                def changed(why, later):
                    for k, (cj, leaves, snap) in enumerate(held):
                        if result_state(leaves) != snap:
                            who = ("same-calculator" if cj == ci else "second-calculator") if later else "weights"
                            sig = ("history:earlier-result-changed-by-later-call:%s:%s" % (who, calcs[cj].kind) if later
                                   else "history:result-aliases-weights-array:%s" % calcs[cj].kind)
                            acc.violation(sig, dict(case, part=why, result_of_call=k + 1),
                                          expected="the result of call %d as it was handed out: %r" % (k + 1, show_state(snap)),
                                          observed=[np.asarray(g).tolist() for g in leaves],
                                          standalone=self.series_snippet(other, series[:t + 1], k))
                            return True
                    return False
                if changed("the caller refilled its weight array", False):
                    return False
                acc.transitions += 1
                acc.evaluations += 1
                snip = lambda: self.series_snippet(other, series[:t + 1], t)
                sig = "history:call-series:%s" % lc.kind
                got = lc.call(acc, w, state[1], case, snip, history=sig)
                if got is None:
                    return False
                if changed("call %d" % (t + 1), True):
                    return False
                snap = result_state(got)
                if judged.get((ci, ai)) != snap:
                    # (bit-identical to a result of the same calculator and argument that was judged right: same verdict)
                    if not lc.judge(acc, got, lc.expect(state[0], state[1]), case, snip, history=sig):
                        return False
                    judged[(ci, ai)] = snap
                if held and not lc.expect(state[0], state[1])["vacuum"]:
                    interesting = True
                held.append((ci, got, snap))
            if interesting:
                acc.nontrivial += 1
        acc.outcome("history:call-series:%s/%s%s:ok" % (self.kind, other.kind, " (second creation)"
                                                       if getattr(other, "is_twin", False) else ""))
        return True


    # ------------------------------------------------------------------ the caller edits its arguments after creation
    def edit_snippet(self, what, kind, timing, first, cur):
        E, n = self.E, len(self.mats)
        lines = _snippet(E, self.mats, cur[0], cur[1], self.form).rstrip("\n").split("\n")
        head, direct = lines[:-3], lines[-1]
        wl = _wl_code(self.form, n)
        body = []
        if wl is not None:
            body.append("wl = %s" % wl)
        body.append("calc = nsf.neutron_composite_sld(materials%s)" % ("" if wl is None else ", wavelength=wl"))
        if timing == "between-evaluations":
            body.append("calc(np.array(%r), density=%r)" % ([float(x) for x in first[0]], first[1]))
        edit = EDIT_CODE[(what, kind)]
        if "%s" in edit:
            edit = edit % E.code((self.mats[-1] + 1) % len(MATERIALS))
        body.append(edit + "          # the caller goes on using its own list / array")
        body.append("print(calc(np.array(%r), density=%r))" % ([float(x) for x in cur[0]], cur[1]))
        return "\n".join(head + body + [direct]) + "\n"

    def creation_histories(self, acc, states):
        """The calculator is precomputed for the list of materials and the wavelength it was CREATED with (docstring:
        'Table lookups and partial sums and constants are precomputed'; the statement: 'the precomputed calculator'
        for a list of materials and a wavelength).  The caller goes on using its own list and its own wavelength
        array - edits them in place - between the creation and the first evaluation, or between two evaluations;
        every evaluation must still be the direct calculation for the creation-time materials and wavelengths (the
        records of the first pass, in which list and wavelength were not touched)."""
        E = self.E
        n = len(self.mats)
        edits = [("materials-list", k) for k in LIST_EDITS]
        if isinstance(self.wl, (np.ndarray, list)):
            edits += [("wavelength-buffer", k) for k in BUFFER_EDITS]
        for what, kind in edits:
            for timing in ("before-first-evaluation", "between-evaluations"):
                L = [E.F[i] for i in self.mats]
                buf = copy.deepcopy(self.wl)                  # the caller's own array / list; self.wl keeps the values
                acc.evaluations += 1
                with np.errstate(all="ignore"):
                    calc = E.nsf.neutron_composite_sld(L) if buf is None else E.nsf.neutron_composite_sld(L, wavelength=buf)
                lc = copy.copy(self)                          # shares the records of the first pass
                lc.calc = calc
                sig = "history:caller-edits-%s-after-creation:%s" % (what, timing)
                first = states[-1]
                todo = ([(first, False)] if timing == "between-evaluations" else []) + [(st, True) for st in states]
                done = False
                for state, edited in todo:
                    if edited and not done:
                        apply_edit(E, what, kind, L, buf, self.mats)
                        done = True
                    acc.states += 1
                    acc.transitions += 1
                    acc.evaluations += 1
                    case = dict(self.case(state[0], state[1]), mode="edit-after-creation", edit=[what, kind], timing=timing)
                    snip = lambda st=state: self.edit_snippet(what, kind, timing, first, st)
                    w = np.array(state[0], dtype=float)
                    got = lc.call(acc, w, state[1], case, snip, history=sig)
                    if got is None:
                        return False
                    rec = self.expect(state[0], state[1])
                    if edited and not rec["vacuum"]:
                        acc.nontrivial += 1
                    if not lc.judge(acc, got, rec, case, snip, history=sig):
                        return False
                acc.outcome("%s:ok" % sig)
        return True


LIST_EDITS = ("replace-member", "reverse", "append", "clear")
BUFFER_EDITS = ("scale", "overwrite")
EDIT_CODE = {
    ("materials-list", "replace-member"): "materials[-1] = %s",
    ("materials-list", "reverse"): "materials.reverse()",
    ("materials-list", "append"): "materials.append(%s)",
    ("materials-list", "clear"): "del materials[:]",
    ("wavelength-buffer", "scale"): "wl[:] = [2.5*x for x in wl]",
    ("wavelength-buffer", "overwrite"): "wl[:] = [1.0 for x in wl]",
}


def apply_edit(E, what, kind, L, buf, mats):
    """The caller's own in-place change of the list of materials / of the wavelength array or list."""
    other = E.F[(mats[-1] + 1) % len(MATERIALS)]
    if what == "materials-list":
        if kind == "replace-member":
            L[-1] = other
        elif kind == "reverse":
            L.reverse()
        elif kind == "append":
            L.append(other)
        elif kind == "clear":
            del L[:]
        else:
            raise MachineryError("edit %r" % (kind,))
    elif what == "wavelength-buffer":
        if kind == "scale":
            buf[:] = [2.5 * x for x in buf]
        elif kind == "overwrite":
            buf[:] = [1.0 for x in buf]
        else:
            raise MachineryError("edit %r" % (kind,))
    else:
        raise MachineryError("edit %r" % (what,))


SCRIBBLE = -7250.0


# Histories (calls that follow other calls on the same calculator / with the same array) are explored on the
# lists over WALK_MATERIALS: the history of a calculator does not know which materials it was built from beyond
# "energy-dependent (complex, per-wavelength values) or not", "repeated or not", "same text or not".
WALK_MATERIALS = ("H2O", "B4C", "Gd2O3", "Lu[176]", "Au", "C15D31 name=tail")
WALK_FORMS_QUICK = ("default", "float", "arr4", "arrN")
EDIT_FORMS_QUICK = ("default", "float", "arr1", "arr4", "list4", "arrN")
WALK3_QUICK = ((0, 1), (1, 2.5))
WALK3_THOROUGH = ((0, 1, 3), (1, 2.5))
TWO_DENSITIES = (1, 2.5)


def walk_plan(mats, tier):
    """(states of the walk, wavelength forms that are walked) for this list, or None: no histories for it.
    quick: lists over WALK_MATERIALS; n <= 2: all (weights, density) of the first pass, n = 3: weights {0, 1}^3 x
    density {1, 2.5}; four wavelength forms.  thorough: every list of n <= 2 with all states and all forms; lists
    of 3 over WALK_MATERIALS with weights {0, 1, 3}^3 x density {1, 2.5}, all forms."""
    n = len(mats)
    sub = all(MATERIALS[i] in WALK_MATERIALS for i in mats)
    quick = tier == "quick"
    if (quick or n > 2) and not sub:
        return None
    if n <= 2:
        states = [(w, d) for w in itertools.product(WEIGHTS, repeat=n) for d in DENSITIES]
    else:
        ws, ds = WALK3_QUICK if quick else WALK3_THOROUGH
        states = [(w, d) for w in itertools.product(ws, repeat=n) for d in ds]
    return states, (WALK_FORMS_QUICK if quick else FORMS_THOROUGH)


def check_list(E, acc, mats, forms, sample=False, only=None, tier="quick"):
    n = len(mats)
    wvecs = list(itertools.product(WEIGHTS, repeat=n))
    clean = []
    for form in forms:
        if form == "arrN" and n == 1:
            continue            # identical to 'arr1' up to the wavelength value
        lc = ListCheck(E, mats, form)
        if not lc.build(acc):
            continue
        for weights in wvecs:
            stop = False
            for density in DENSITIES:
                if not lc.check(acc, weights, density):
                    stop = True
                    break
            if stop:
                break               # one violation per (list, form) is enough
        else:
            clean.append(lc)
            if sample:
                acc.sample(lc.case(wvecs[-1], DENSITIES[-1]))
    # histories: only on calculators whose every single call (fresh array, no history) was right
    plan = walk_plan(mats, tier)
    if plan is None:
        return
    states, walk_forms = plan
    seq = pair_walk(len(states))
    hw = sorted(set(w for w, _ in states))
    seq2 = pair_walk(len(hw))
    walkers = [lc for lc in clean if lc.form in walk_forms]
    for k, lc in enumerate(walkers):
        if only is not None and lc.form not in only:
            continue
        ok = lc.reuse_walk(acc, states, seq) and lc.scribble_walk(acc, states)
        if ok and len(walkers) > 1:
            ok = lc.two_walk(acc, walkers[(k + 1) % len(walkers)], hw, TWO_DENSITIES, seq2)
        if ok:
            lc.arguments_intact(acc, lc._mats, lc._wl_before, "calls")
        acc.count("history_walks")
    # call series: every result handed out earlier is read again after every later call
    series_forms = SERIES_FORMS_QUICK if tier == "quick" else FORMS_THOROUGH
    sw = [lc for lc in clean if lc.form in series_forms]
    args = series_args(n, tier)
    for k, lc in enumerate(sw):
        if only is not None and lc.form not in only:
            continue
        tw = lc.twin(acc)
        ok = tw is not None and lc.series_walk(acc, tw, args, SERIES_DEPTH)
        if ok and len(sw) > 1:
            ok = lc.series_walk(acc, sw[(k + 1) % len(sw)], args, SERIES_DEPTH)
        if ok:
            lc.arguments_intact(acc, lc._mats, lc._wl_before, "call-series")
        acc.count("call_series_walks")
    if n <= 2:
        edit_forms = EDIT_FORMS_QUICK if tier == "quick" else FORMS_THOROUGH
        for lc in clean:
            if lc.form in edit_forms and (only is None or lc.form in only):
                if lc.creation_histories(acc, states):
                    lc.arguments_intact(acc, lc._mats, lc._wl_before, "edit-histories")
                acc.count("edit_after_creation_calculators")
    acc.info["max_walk_states"] = max(acc.info.get("max_walk_states", 0), len(states))


# ---------------------------------------------------------------------------------------------
# materials derived from materials that were already used in a calculator
#
# The caller owns its Formula objects and goes on working with them: m is used in a calculator, THEN n*m, m+o, o+m
# are built from it, or m itself is extended in place (m += o), and the derived material is used in a second
# calculator (alone, together with m, after o), at the same wavelength argument or at another one.  n*m is a copy of
# m with another structure: whatever an earlier use attached to m must not describe the copy.
D_BASES = ("H2O", "B4C", "Gd2O3", "Lu[176]", "Au", "C15D31 name=tail")
D_OTHERS = ("D2O", "Gd2O3")
DERIVATIONS = ("n*m", "m+o", "o+m", "m+=o")
D_FIRST = ("m", "m,o")
D_SECOND = ("d", "d,m", "o,d")
D_FORMS = (("default", "default"), ("float", "float"), ("arr1", "arr1"), ("arr4", "arr4"), ("float", "arr4"))
D_WEIGHTS = (0, 1, 3)
D_DENSITIES = (1, 2.5)
D_N = 6


class DerivedEnv(object):
    """The caller-owned materials of one derivation history (fresh Formula objects), in the shape ListCheck wants."""
    def __init__(self, E, extra):
        self.pt, self.nsf, self.NA, self.default_wavelength, self.pyname = E.pt, E.nsf, E.NA, E.default_wavelength, E.pyname
        self.F, self.atoms, self.seen, self.names, self.codes, self.pre = [], [], [], [], [], []
        self.case_extra = extra

    def add(self, name, f, atoms, code=None):
        self.F.append(f); self.atoms.append(list(atoms)); self.seen.append(formula_state(f)); self.names.append(name)
        self.codes.append(code or name)
        return len(self.F) - 1

    def name(self, i):
        return self.names[i]

    def code(self, i):
        return self.codes[i]


def _merge(*atom_lists):
    out = {}
    for atoms in atom_lists:
        for a, q in atoms:
            out[a] = out.get(a, 0) + q
    return list(out.items())


def _observe(f):
    """What a caller may look at before going on (anything of this could be memoised on the object)."""
    return (str(f), f.mass, dict(f.atoms), str(f.hill), f.molecular_mass, f.density, f.charge, repr(f))


def _judged_calls(lc, acc, sig, part):
    """All (weights, density) of the derivation grid on calculator lc; history signature sig (None: plain).
    -> False after a violation."""
    n = len(lc.mats)
    for weights in itertools.product(D_WEIGHTS, repeat=n):
        for density in D_DENSITIES:
            acc.states += 1
            acc.transitions += 1
            acc.evaluations += 2
            w = np.array(weights, dtype=float)
            case = lc.case(weights, density)
            if part:
                case["judged"] = part
            snip = lambda: _snippet(lc.E, lc.mats, weights, density, lc.form)
            got = lc.call(acc, w, density, case, snip, history=sig)
            if got is None:
                return False
            rec = lc.expect(weights, density)
            if not rec["vacuum"]:
                acc.nontrivial += 1
            if not lc.judge(acc, got, rec, case, snip, history=sig):
                return False
    return True


def derivation_history(E, acc, base, other, deriv, first, second, forms, use_first=True):
    """use_first=False is the control: the same derivation and second calculator on objects that were never used.
    -> True (agrees) | False (violation reported) | None (not judged)."""
    from periodictable import formula
    extra = dict(mode="derived-after-use" if use_first else "derived", base=base, other=other, derivation=deriv,
                 first=first, second=second, wl1=forms[0])
    V = DerivedEnv(E, extra)
    m, o = material_formula(formula, base), material_formula(formula, other)
    im = V.add("m", m, m.atoms.items())
    io = V.add("o", o, o.atoms.items())
    V.pre += ["m = %s" % material_code(base), "o = %s" % material_code(other)]
    lc1 = None
    if use_first:
        _observe(m)
        lc1 = ListCheck(V, [im] if first == "m" else [im, io], forms[0])
        if not lc1.build(acc):
            return False
        ones = (1,) * len(lc1.mats)
        wl = _wl_code(forms[0], len(lc1.mats))
        V.pre += ["print(m, m.mass, m.atoms, m.hill)",
                  "calc1 = nsf.neutron_composite_sld([%s]%s)" % (first, "" if wl is None else ", wavelength=%s" % wl),
                  "calc1(np.array(%r), density=1)      # m has been used" % ([1.0] * len(ones),)]
        acc.transitions += 1
        acc.evaluations += 1
        got = lc1.call(acc, np.array(ones, dtype=float), 1, lc1.case(ones, 1), lambda: _snippet(V, lc1.mats, ones, 1, forms[0]))
        if got is None or not lc1.judge(acc, got, lc1.expect(ones, 1), lc1.case(ones, 1),
                                        lambda: _snippet(V, lc1.mats, ones, 1, forms[0])):
            return False
    if deriv == "n*m":
        d = D_N * m
        atoms_d = [(a, D_N * q) for a, q in V.atoms[im]]
        V.pre.append("d = %d*m" % D_N)
    elif deriv == "m+o":
        d = m + o
        atoms_d = _merge(V.atoms[im], V.atoms[io])
        V.pre.append("d = m + o")
    elif deriv == "o+m":
        d = o + m
        atoms_d = _merge(V.atoms[io], V.atoms[im])
        V.pre.append("d = o + m")
    elif deriv == "m+=o":
        m += o
        d = m
        atoms_d = _merge(V.atoms[im], V.atoms[io])
        V.atoms[im] = list(atoms_d)                 # m IS the extended material now (the caller's own change)
        V.seen[im] = formula_state(m)
        V.pre.append("m += o; d = m")
    else:
        raise MachineryError("derivation %r" % (deriv,))
    if dict(d.atoms) != dict(atoms_d):
        acc.count("derived_material_composition_differs_not_judged")        # formula arithmetic is C02
        return None
    idd = V.add("d", d, atoms_d)
    idx = dict(m=im, o=io, d=idd)
    lc2 = ListCheck(V, [idx[k] for k in second.split(",")], forms[1])
    if not lc2.build(acc):
        return False
    if use_first:
        sig = "history:material-derived-after-use:%s:%s" % (deriv, "same-wavelength-argument" if forms[0] == forms[1]
                                                             else "other-wavelength-argument")
    else:
        sig = None
    if not _judged_calls(lc2, acc, sig, "second-calculator"):
        return False
    if use_first and deriv != "m+=o":
        # the first calculator still answers for m
        wl2 = _wl_code(forms[1], len(lc2.mats))
        V.pre += ["calc2 = nsf.neutron_composite_sld([%s]%s)" % (second, "" if wl2 is None else ", wavelength=%s" % wl2),
                  "calc2(np.array(%r), density=1)" % ([1.0] * len(lc2.mats),)]
        if not _judged_calls(lc1, acc, "history:earlier-calculator-after-derived-material-was-used:%s" % deriv,
                             "first-calculator"):
            return False
    acc.outcome("%s:%s:ok" % ("history:material-derived-after-use" if use_first else "derived-material-unused", deriv))
    return True


def plain_lists(E, acc, base, other, form):
    """[m], [o], [m, o] and [o, m] on fresh objects without any derivation, over the derivation grid."""
    from periodictable import formula
    V = DerivedEnv(E, {})
    m, o = material_formula(formula, base), material_formula(formula, other)
    im = V.add(base, m, m.atoms.items(), material_code(base))
    io = V.add(other, o, o.atoms.items(), material_code(other))
    for mats in ([im], [io], [im, io], [io, im]):
        lc = ListCheck(V, mats, form)
        if not lc.build(acc) or not _judged_calls(lc, acc, None, None):
            return False
    return True


def derive_plan():
    return [(b, o, dv, f, s2, fm) for b in D_BASES for o in D_OTHERS if o != b for dv in DERIVATIONS for f in D_FIRST
            for s2 in D_SECOND for fm in D_FORMS]


def _derive_shard(args):
    plans, tier = args
    E = Env()
    acc = Acc()
    control = {}
    plain = {}
    for b, o, dv, f, s2, fm in plans:
        # nothing beyond a broken state: the underived materials alone, on this grid, with plain signatures
        for form in fm:
            if (b, o, form) not in plain:
                plain[(b, o, form)] = plain_lists(E, acc, b, o, form)
        if not (plain[(b, o, fm[0])] and plain[(b, o, fm[1])]):
            acc.count("derivation_histories_not_explored_beyond_a_violation_or_unjudged")
            continue
        ck = (b, o, dv, s2, fm[1])
        if ck not in control:
            # the derived material in the second calculator WITHOUT any earlier use: plain signatures
            control[ck] = derivation_history(E, _Renamed(acc, "derived-material:"), b, o, dv, f, s2, fm, use_first=False)
        if control[ck] is not True:
            acc.count("derivation_histories_not_explored_beyond_a_violation_or_unjudged")
            continue
        derivation_history(E, acc, b, o, dv, f, s2, fm)
    acc.traces = acc.transitions
    return acc


class _Renamed(object):
    """An Acc whose violation signatures get a prefix."""
    def __init__(self, acc, prefix):
        object.__setattr__(self, "_acc", acc)
        object.__setattr__(self, "_prefix", prefix)

    def violation(self, signature, *a, **k):
        return self._acc.violation(self._prefix + signature, *a, **k)

    def __getattr__(self, name):
        return getattr(self._acc, name)

    def __setattr__(self, name, value):
        setattr(self._acc, name, value)


# ---------------------------------------------------------------------------------------------
# sweeps of the material alphabet (single calls only: all weights, densities and wavelength forms of the first pass)
#
# (a) ENERGY-DEPENDENT ATOMS: the calculator looks the scattering lengths up per material and per wavelength; which atoms
#     vary with the wavelength is the library's own knowledge (the tables of Lynn & Seeger, and natural Lu whose table
#     is mixed from Lu-175 and the Lu-176 resonance when the data are attached).  EVERY such atom - element and isotope
#     forms, neutral and as the 3+ ion - is the ONLY tabulated atom of a material (alone; with constant atoms), of a
#     list (alone, before / after / between constant materials), is one of two tabulated atoms (every ordered pair as
#     a list of two materials, every unordered pair inside one material) - at every wavelength form.
# (b) FRACTIONAL AND LARGE COUNTS: materials whose atoms per formula unit are not a whole number (0.5, 1.947, 2.95,
#     0.7 + 0.2 + 0.1) or do not fit 32 bits, in every position of lists of 1..3 materials.
ED_FALLBACK = (("Sm", 0), ("Sm", 149), ("Eu", 0), ("Eu", 151), ("Gd", 0), ("Gd", 155), ("Gd", 157), ("Dy", 164),
               ("Er", 0), ("Er", 167), ("Yb", 0), ("Yb", 168), ("Yb", 174), ("Lu", 0), ("Lu", 176))
ED_CHARGE = 3
SWEEP_CONST = ("H2O", "Au")
FRACTIONAL = ("Fe0.947O", "Ce0.9Gd0.1O1.95", "H0.5", "Ni0.7Cu0.2Zn0.1", "C4294967297H8589934596")
FRACTIONAL_PARTNERS = ("H2O", "Gd2O3", "Au")


def energy_dependent_atoms():
    """(symbol, A or 0) of every atom whose scattering length varies with the wavelength: the keys of the pinned copy of
    the energy tables, natural Lu, and whatever else the library under test attaches a table to."""
    from ..ref import tables as rt
    pt = load_pt()
    keys = set((sym, a or 0) for sym, a in rt.energy_tables()) | set(ED_FALLBACK)
    for el in pt.elements:
        for a, atom in [(0, el)] + [(i, el[i]) for i in el.isotopes]:
            nd = getattr(atom, "neutron", None)
            if nd is not None and getattr(nd, "nsf_table", None) is not None:
                keys.add((el.symbol, a))
    return sorted(keys)


def _atom_text(sym, a, q=0):
    return sym + ("[%d]" % a if a else "") + ("{%d+}" % q if q else "")


def sweep_lists():
    """-> [(class, tuple of material texts)]"""
    out = []
    ed = energy_dependent_atoms()
    c1, c2 = SWEEP_CONST
    for sym, a in ed:
        for q in (0, ED_CHARGE):
            x = _atom_text(sym, a, q)
            ox = x + "2O3"
            cls = "energy-dependent-atom-alone" if q == 0 else "energy-dependent-ion-alone"
            out += [(cls, t) for t in ((x,), (ox,), (x, x), (x, c1), (c1, x), (ox, c1), (c1, ox), (ox, x))]
            if q == 0:
                out += [(cls, t) for t in ((x, c1, c2), (c1, x, c2), (c1, c2, x))]
    for i, (s1, a1) in enumerate(ed):
        for j, (s2, a2) in enumerate(ed):
            if i == j:
                continue
            x, y = _atom_text(s1, a1), _atom_text(s2, a2)
            out.append(("two-energy-dependent-atoms", (x, y)))
            if i < j:
                out.append(("two-energy-dependent-atoms", (x + y + "3",)))
                out.append(("two-energy-dependent-atoms", (x + y + "3", c1)))
    alpha = FRACTIONAL + FRACTIONAL_PARTNERS
    for n in (1, 2):
        out += [("fractional-counts", t) for t in itertools.product(alpha, repeat=n) if set(t) & set(FRACTIONAL)]
    alpha3 = FRACTIONAL[:3] + FRACTIONAL_PARTNERS[:2]
    out += [("fractional-counts", t) for t in itertools.product(alpha3, repeat=3) if set(t) & set(FRACTIONAL)]
    out += [(SCALE_CLASS, t) for t in SCALE_LISTS]
    return out


# (c) SCALE OF THE WEIGHTS AND OF THE DENSITY: the SLD of sum_i w_i*material_i at density rho does not depend on the overall
#     scale of the weights (mole amounts of a nanogram sample, ~1e-11, or of a tonne) and is proportional to rho however
#     small; ONLY an exactly zero weight sum or an exactly zero density is a vacuum.  Every base vector over {0, 0.5, 3}^n
#     (a weight that is exactly 0 among positive ones included) x every factor x every density x every wavelength form,
#     each single call judged against the direct route on the same scaled weighted sum (relative tolerances only).
SCALE_CLASS = "weight-and-density-scale"
SCALE_LISTS = (("H2O",), ("Gd2O3",), ("Lu[176]",), ("H2O", "D2O"), ("Gd2O3", "H2O"), ("Ti", "Sm[149]O"), ("Au", "V"),
               ("H2O", "D2O", "Gd2O3"), ("B4C", "Lu[176]", "Ti"))
SCALE_BASE = (0, 0.5, 3)
SCALE_FACTORS = (1e-15, 1e-11, 1e-6, 1, 1e6, 1e12)
SCALE_DENSITIES = (0, 1e-12, 1e-6, 1, 1e3)


def scale_check(lc, acc, base, k, density):
    """One call with the weights k*base at this density on a fresh array.  False after a violation."""
    weights = tuple(k * b for b in base)
    acc.states += 1
    acc.transitions += 1
    acc.evaluations += 2
    w = np.array(weights, dtype=float)
    case = lc.case(weights, density)
    case["scale"] = [[float(b) for b in base], k]
    snip = lambda: _snippet(lc.E, lc.mats, weights, density, lc.form)
    racc = _Renamed(acc, "scale:")
    got = lc.call(racc, w, density, case, snip)
    if got is None:
        return False
    rec = lc.expect(weights, density)
    if not rec["vacuum"]:
        acc.nontrivial += 1
        if all(np.all(np.asarray(g) == 0) for g in got) and np.any(rec["sc_re"] > 0):
            # the answer for a vacuum although neither the weight sum nor the density is zero
            small = "small-weights" if k < 1 else "small-density" if density < 1 else "ordinary-magnitudes"
            acc.violation("scale:vacuum-for-positive-weights-and-density:%s:%s" % (small, lc.kind), case,
                          expected=None if rec["exp"] is None else [e.tolist() for e in rec["exp"]],
                          observed=[np.asarray(g).tolist() for g in got], standalone=snip(),
                          detail="sum_i w_i*M_i = %r, density = %r: both positive" %
                                 (sum(wi * m for wi, m in zip(weights, lc.mass)), density))
            return False
    return lc.judge(racc, got, rec, case, snip)


def scale_sweep(lc, acc):
    n = len(lc.mats)
    for base in itertools.product(SCALE_BASE, repeat=n):
        for k in SCALE_FACTORS:
            if k != 1 and not any(base):
                continue                            # k*(0, .., 0) is the same vector for every k
            for density in SCALE_DENSITIES:
                if not scale_check(lc, acc, base, k, density):
                    return False
    return True


def sweep_list(E, acc, cls, texts, forms):
    """One list of the sweep: all weights, densities and wavelength forms, single calls on fresh arrays."""
    from periodictable import formula
    V = DerivedEnv(E, dict(mode="sweep", sweep=cls))
    idx = {}
    for t in texts:
        if t not in idx:                       # a repeated material is the same Formula object, as in the first pass
            f = formula(t)
            idx[t] = V.add(t, f, f.atoms.items(), "formula(%r)" % t)
    mats = [idx[t] for t in texts]
    n = len(mats)
    for form in forms:
        if form == "arrN" and n == 1:
            continue
        lc = ListCheck(V, mats, form)
        if not lc.build(acc):
            continue
        ok = True
        if cls == SCALE_CLASS:
            ok = scale_sweep(lc, acc)
        else:
            for weights in itertools.product(WEIGHTS, repeat=n):
                for density in DENSITIES:
                    if not lc.check(acc, weights, density):
                        ok = False
                        break
                if not ok:
                    break
        if ok:
            lc.arguments_intact(acc, lc._mats, lc._wl_before, "calls")
            acc.outcome("sweep:%s:%s:ok" % (cls, lc.kind))
    acc.count("sweep_lists:%s" % cls)


def _sweep_shard(args):
    lists, tier = args
    E = Env()
    acc = Acc()
    forms = FORMS_QUICK if tier == "quick" else FORMS_THOROUGH
    for k, (cls, texts) in enumerate(lists):
        sweep_list(E, acc, cls, texts, forms)
        if k == 0:
            acc.sample(dict(mode="sweep", sweep=cls, materials=list(texts)))
    acc.traces = acc.transitions
    return acc


def _shard(args):
    if args[0] == "derive":
        return _derive_shard(args[1:])
    if args[0] == "sweep":
        return _sweep_shard(args[1:])
    lists, tier, _ = args
    E = Env()
    acc = Acc()
    forms = FORMS_QUICK if tier == "quick" else FORMS_THOROUGH
    for k, mats in enumerate(lists):
        check_list(E, acc, mats, forms, sample=(k == 0), tier=tier)
    acc.traces = acc.transitions
    return acc


def run(ctx):
    maxlen = 2 if ctx.quick else 3
    lists = all_lists(maxlen)
    if ctx.quick:
        lists = lists + repeated_triples()
    lists = rotate(lists, ctx.seed)
    nshards = 32 if ctx.quick else 96
    jobs = [(part, ctx.tier, i) for i, part in enumerate(chunks(lists, nshards))]
    plans = derive_plan()
    for key in sorted(set(p[:2] for p in plans)):              # one shard per (base, other)
        jobs.append(("derive", [p for p in plans if p[:2] == key], ctx.tier))
    sweeps = sweep_lists()
    order = sorted(range(len(sweeps)), key=lambda i: (-len(sweeps[i][1]), i))       # triples first, dealt round-robin
    nsw = 32
    for k in range(nsw):
        part = [sweeps[i] for i in order[k::nsw]]
        if part:
            jobs.append(("sweep", part, ctx.tier))
    ctx.pmap(_shard, jobs)
    ctx.acc.info["sweep_lists"] = len(sweeps)
    ctx.acc.info["energy_dependent_atoms"] = ["%s%s" % (sym, "[%d]" % a if a else "") for sym, a in energy_dependent_atoms()]
    ctx.acc.info["fractional_materials"] = list(FRACTIONAL)
    ctx.acc.info["derivation_histories"] = len(plans)
    acc = ctx.acc
    acc.traces = acc.transitions
    acc.info["lists"] = len(lists)
    acc.info["max_list_length"] = maxlen
    acc.info["materials"] = list(MATERIALS)
    acc.info["wavelength_forms"] = list(FORMS_QUICK if ctx.quick else FORMS_THOROUGH)
    acc.info["history_materials"] = list(WALK_MATERIALS)
    acc.info["history_wavelength_forms"] = list(WALK_FORMS_QUICK if ctx.quick else FORMS_THOROUGH)


def replay(ctx, case, signature=None):
    E = Env()
    if case.get("mode") in ("derived-after-use", "derived"):
        acc = ctx.acc if case["mode"] == "derived-after-use" else _Renamed(ctx.acc, "derived-material:")
        derivation_history(E, acc, case["base"], case["other"], case["derivation"], case["first"], case["second"],
                           (case["wl1"], case["wl"]), use_first=(case["mode"] == "derived-after-use"))
        return
    if case.get("mode") == "sweep":
        scratch = Acc()
        sweep_list(E, scratch, case.get("sweep", "replay"), tuple(case["materials"]), [case["wl"]])
        for sig, rec in scratch.viol.items():
            if signature is None or sig == signature:
                ctx.acc.viol[sig] = rec
        return
    try:
        mats = [MATERIALS.index(s) for s in case["materials"]]
    except ValueError:
        raise MachineryError("replay case names a material outside the alphabet: %r" % (case["materials"],))
    lc = ListCheck(E, mats, case["wl"])
    if not lc.build(ctx.acc):
        return
    mode = case.get("mode")
    if mode is None:
        if "weights" in case:
            lc.check(ctx.acc, tuple(case["weights"]), case["density"])
        return
    if mode == "edit-after-creation":
        n = len(mats)
        for weights in itertools.product(WEIGHTS, repeat=n):          # the records of the untouched calculator
            for density in DENSITIES:
                if not lc.check(ctx.acc, weights, density):
                    return
        lc.creation_histories(ctx.acc, [(w, d) for w in itertools.product(WEIGHTS, repeat=n) for d in DENSITIES])
        return
    if mode == "series":
        first, second = (case["wl"], case["wl2"]) if case.get("judged_calculator", 0) == 0 else (case["wl2"], case["wl"])
        if first != lc.form:
            lc = ListCheck(E, mats, first)
            if not lc.build(ctx.acc):
                return
        if case.get("twin"):
            other = lc.twin(ctx.acc)
            if other is None:
                return
        else:
            other = ListCheck(E, mats, second)
            if not other.build(ctx.acc):
                return
        args = [(tuple(wv), d) for wv, d in case["args"]]
        lc.series_walk(ctx.acc, other, args, len(case["series"]), only=tuple((c, a) for c, a in case["series"]))
        if ctx.acc.viol:
            return
        scratch = Acc()
        check_list(E, scratch, mats, FORMS_THOROUGH, tier="thorough" if len(mats) <= 2 else ctx.tier)
        for sig, rec in scratch.viol.items():
            if signature is None or sig == signature:
                ctx.acc.viol[sig] = rec
        return
    # a history: first the recorded pair of calls on a new calculator ...
    prev = (tuple(case["previous"][0]), case["previous"][1])
    cur = (tuple(case["weights"]), case["density"])
    acc = ctx.acc
    if mode == "reuse":
        w = np.zeros(len(mats))
        w[:] = prev[0]
        if lc.step(acc, w, prev, None, mode, "history:reused-weights-array:%s" % lc.kind) is not None:
            w[:] = cur[0]
            lc.step(acc, w, cur, prev, mode, "history:reused-weights-array:%s" % lc.kind)
    elif mode == "two":
        other = ListCheck(E, mats, case["wl2"])
        if not other.build(acc):
            return
        w = np.zeros(len(mats))
        w[:] = prev[0]
        if lc.step(acc, w, prev, None, mode, "history:two-calculators-interleaved:%s-after-%s" % (other.kind, lc.kind),
                   other=lc, judged_by=other) is not None:
            w[:] = cur[0]
            lc.step(acc, w, cur, prev, mode, "history:two-calculators-interleaved:%s-after-%s" % (lc.kind, other.kind),
                    other=other, judged_by=lc)
    elif mode == "scribble":
        sig = "history:caller-writes-into-returned-arrays:%s" % lc.kind
        got = lc.step(acc, np.array(prev[0], dtype=float), prev, None, mode, sig)
        if got is not None:
            for g in got:
                if isinstance(g, np.ndarray) and g.flags.writeable:
                    g[...] = SCRIBBLE
            lc.step(acc, np.array(cur[0], dtype=float), cur, prev, mode, sig)
    else:
        raise MachineryError("unknown replay mode %r" % (mode,))
    if acc.viol:
        return
    # ... then, if the pair alone is silent, every history of this list (the recorded call may need more of it)
    scratch = Acc()
    check_list(E, scratch, mats, FORMS_THOROUGH, tier="thorough" if len(mats) <= 2 else ctx.tier)
    for sig, rec in scratch.viol.items():
        if signature is None or sig == signature:
            acc.viol[sig] = rec
