"""C17 - the composite SLD calculator equals the direct calculation on the weighted sum
(E1 over material lists x weights x density x wavelength forms; DESIGN section 4, C17).

State  = (ordered list of materials with repetition, weight vector, density, form of the wavelength
         argument).  One calculator is built per (list, wavelength form) and applied to every
         (weights, density) - exactly the way the calculator is meant to be used.
Oracle = differential: nsf.neutron_composite_sld(materials, wavelength)(weights, density) against
         nsf.neutron_sld({atom: sum_i w_i * count_i}, density, wavelength) - the second route the
         statement names - for the real, imaginary and incoherent SLD; every output has the shape of
         the wavelength argument whenever the result is not the vacuum; zero total weight or zero
         density gives zeros (of any shape)."""
import itertools
import math

import numpy as np

from ..common import Acc, load_pt, chunks, rotate, MachineryError

META = dict(
    level="model_checking", engine="E1",
    technique="bounded-exhaustive enumeration of material lists x weight vectors x densities x wavelength "
              "argument forms on the real calculator, differential against the direct calculation",
    rule=("every ordered list (with repetition) of the bound over 10 materials (light and heavy water, an oxide, a "
          "strong 1/v absorber, three energy-dependent rare-earth materials of which pure Lu[176] has "
          "sigma_s == sigma_c, two negative-b metals, and Au whose tabulated sigma_s is smaller than sigma_c so "
          "that sigma_i really clips at zero), every weight vector over {0, 0.5, 1, 3}^n, every density "
          "of {0, 1, 2.5}, every form of the wavelength argument; one calculator per (list, form); non-trivial = "
          "non-zero total weight and non-zero density, so that three value vectors and three shapes are compared"),
    bound=dict(
        quick="all 110 lists of length 1..2 and the 280 lists of length 3 in which a material is repeated; 4^n weight vectors; 3 densities; wavelength forms default, float, "
              "int, float beyond the resonance tables, length-1 array, length-4 array, length-4 list, length-4 tuple, "
              "array whose length equals the number of materials",
        thorough="all 1110 lists of length 1..3; 4^n weight vectors; 3 densities; the same nine wavelength forms"),
    assumptions=[
        "the formula sum_i w_i*material_i is handed to neutron_sld as the atom dictionary {atom: sum_i w_i*count_i} "
        "built by the check from each material's .atoms (formula arithmetic itself is C02)",
        "weights are float numpy vectors (the calculator indexes weights[:, None]); density is passed by keyword",
        "materials are Formula objects without density (the calculator documents that it ignores it)",
        "real part: 1e-9 of (10/V) sum n_k |Re b_k|; imaginary part: 1e-9 of (10/V) sum n_k |Im b_k|; incoherent "
        "part: compared through sigma_i = (rho_inc / (10 N))^2 * 4 pi/100 with relative 1e-9 plus absolute "
        "1e-12 * sigma_s (sigma_i is a clipped difference under a root; pure Lu[176] has sigma_s == sigma_c)",
        "in the vacuum cases only 'all outputs are zero' is judged, not their shape (the statement gives zeros)",
        "the shape of the direct route's outputs is not judged here (C04); it is broadcast to the calculator's",
        "per-atom b_c(lambda) and sigma_s(lambda) enter only the tolerance scales, read through "
        "Neutron.scattering_by_wavelength",
    ],
    level_text="every member of the stated finite space was executed on the real calculator and compared with the "
               "direct route; the calculator is a fixed sequence of array operations whose only data-dependent "
               "branches are the vacuum test, the clip of sigma_i at zero and scalar-vs-sequence wavelength, all "
               "of which are taken both ways inside the bound; nothing is claimed for longer lists except through "
               "the small-scope argument (sums over the list axis, broadcast over the wavelength axis)",
    level_note="trusted: nsf.neutron_sld on an explicit atom dictionary (C03) as the reference route; numpy",
)

MATERIALS = ("H2O", "D2O", "SiO2", "B4C", "Gd2O3", "Sm[149]O", "Lu[176]", "V", "Ti", "Au",
             # two DIFFERENT materials that print the same (a named formula prints its name): anything keyed on
             # str(material) confuses them
             "C15H31 name=tail", "C15D31 name=tail")


def material_formula(formula, spec):
    text, _, name = spec.partition(" name=")
    return formula(text, name=name) if name else formula(text)


def material_code(spec):
    text, _, name = spec.partition(" name=")
    return "formula(%r, name=%r)" % (text, name) if name else "formula(%r)" % text
WEIGHTS = (0, 0.5, 1, 3)
DENSITIES = (0, 1, 2.5)
REL = 1e-9
ABS_SIGMA = 1e-12
_4PI_100 = 4 * math.pi / 100

FORMS_QUICK = ("default", "float", "int", "float-long", "arr1", "arr4", "list4", "tuple4", "arrN")
FORMS_THOROUGH = FORMS_QUICK
_ARR_N = (0.7, 2.4, 1.1)


def wavelength_arg(form, n):
    """(the argument to pass or None for 'omit', shape every output must have, kind for signatures)."""
    if form == "default":
        return None, (), "default"
    if form == "float":
        return 0.9, (), "scalar"
    if form == "int":
        return 2, (), "scalar"
    if form == "float-long":
        return 6.0, (), "scalar"
    if form == "arr1":
        return np.array([2.2]), (1,), "vector"
    if form == "arr4":
        return np.array([0.5, 1.0, 1.798, 4.75]), (4,), "vector"
    if form == "list4":
        return [4.75, 0.45, 1.3, 2.0], (4,), "vector"
    if form == "tuple4":
        return (0.6, 3.0, 1.798, 0.41), (4,), "vector"
    if form == "arrN":
        return np.array(_ARR_N[:n]), (n,), "vector"
    raise MachineryError("unknown wavelength form %r" % (form,))


def _wl_code(form, n):
    w, _, _ = wavelength_arg(form, n)
    if w is None:
        return None
    if isinstance(w, np.ndarray):
        return "np.array(%r)" % (w.tolist(),)
    return repr(w)


class Env(object):
    def __init__(self):
        self.pt = load_pt()
        from periodictable import nsf, formula, constants
        self.nsf = nsf
        self.NA = constants.avogadro_number
        self.F = [material_formula(formula, s) for s in MATERIALS]
        self.atoms = [list(f.atoms.items()) for f in self.F]
        self.default_wavelength = nsf.ABSORPTION_WAVELENGTH

    def pyname(self, a):
        if hasattr(a, "isotope"):
            if a.symbol in ("D", "T"):
                return "pt.%s" % a.symbol
            return "pt.%s[%d]" % (a.element.symbol, a.isotope)
        return "pt.%s" % a.symbol


def all_lists(maxlen):
    out = []
    for n in range(1, maxlen + 1):
        out.extend(itertools.product(range(len(MATERIALS)), repeat=n))
    return out


def repeated_triples():
    """All lists of length 3 in which some material occurs more than once ([A,A,B], [A,B,A], [A,B,B],
    [A,A,A]): the shortest lists in which a repeated material is not adjacent to / not all of the list."""
    return [t for t in itertools.product(range(len(MATERIALS)), repeat=3) if len(set(t)) < 3]


def _snippet(E, mats, weights, density, form):
    n = len(mats)
    wl = _wl_code(form, n)
    atoms = {}
    for i, w in zip(mats, weights):
        for a, q in E.atoms[i]:
            if w * q != 0:
                atoms[a] = atoms.get(a, 0) + w * q
    ad = "{%s}" % ", ".join("%s: %r" % (E.pyname(a), float(c)) for a, c in atoms.items())
    lines = ["import numpy as np", "import periodictable as pt", "from periodictable import formula, nsf",
             "materials = [%s]" % ", ".join(material_code(MATERIALS[i]) for i in mats),
             "calc = nsf.neutron_composite_sld(materials%s)" % ("" if wl is None else ", wavelength=%s" % wl),
             "print(calc(np.array(%r), density=%r))" % ([float(w) for w in weights], density),
             "print(nsf.neutron_sld(%s, density=%r%s))" % (ad, density, "" if wl is None else ", wavelength=%s" % wl)]
    return "\n".join(lines) + "\n"


class ListCheck(object):
    """One (material list, wavelength form): the calculator and the per-material tolerance scales."""
    def __init__(self, E, mats, form):
        self.E, self.mats, self.form = E, tuple(mats), form
        n = len(mats)
        self.wl, self.shape, self.kind = wavelength_arg(form, n)
        wl_values = np.atleast_1d(np.asarray(E.default_wavelength if self.wl is None else self.wl, dtype=float))
        self.wl_values = wl_values
        # per material: atoms, mass and the sums of magnitudes that scale the tolerances
        self.n_atoms, self.mass, self.abs_re, self.abs_im, self.sig, self.bsum = [], [], [], [], [], []
        for i in mats:
            na = m = 0.0
            are = np.zeros(len(wl_values)); aim = np.zeros(len(wl_values)); sg = np.zeros(len(wl_values))
            bs = np.zeros(len(wl_values), dtype=complex)
            for a, q in E.atoms[i]:
                b, s = a.neutron.scattering_by_wavelength(wl_values)
                b = np.asarray(b, dtype=complex) * np.ones(len(wl_values))
                na += q; m += q * a.mass
                are += q * abs(b.real); aim += q * abs(b.imag); sg += q * np.asarray(s, dtype=float)
                bs += q * b
            self.n_atoms.append(na); self.mass.append(m)
            self.abs_re.append(are); self.abs_im.append(aim); self.sig.append(sg); self.bsum.append(bs)
        self.calc = None

    def case(self, weights=None, density=None):
        c = dict(materials=[MATERIALS[i] for i in self.mats], wl=self.form)
        if weights is not None:
            c["weights"] = [float(w) for w in weights]
            c["density"] = density
        return c

    def build(self, acc):
        E = self.E
        mats = [E.F[i] for i in self.mats]
        acc.evaluations += 1
        try:
            with np.errstate(all="ignore"):
                if self.wl is None:
                    self.calc = E.nsf.neutron_composite_sld(mats)
                else:
                    self.calc = E.nsf.neutron_composite_sld(mats, wavelength=self.wl)
        except Exception as e:
            acc.violation("constructor-raises:%s:%s" % (type(e).__name__, self.kind), self.case(),
                          expected="a calculator", observed="%s: %s" % (type(e).__name__, e),
                          standalone=_snippet(E, self.mats, [1] * len(self.mats), 1, self.form))
            return False
        return True

    def check(self, acc, weights, density):
        """One application of the calculator.  Returns False on a violation."""
        E = self.E
        acc.states += 1
        acc.transitions += 1
        acc.evaluations += 2
        w = np.array(weights, dtype=float)
        case = self.case(weights, density)
        snip = lambda: _snippet(E, self.mats, weights, density, self.form)
        total_mass = sum(wi * m for wi, m in zip(weights, self.mass))
        vacuum = total_mass == 0 or density == 0
        try:
            with np.errstate(all="ignore"):
                got = self.calc(w, density=density)
            got = tuple(got)
            if len(got) != 3:
                raise ValueError("calculator returned %d values" % len(got))
        except Exception as e:
            acc.violation("raises:%s:%s" % (type(e).__name__, self.kind), case,
                          expected="(real, imaginary, incoherent)", observed="%s: %s" % (type(e).__name__, e),
                          standalone=snip())
            return False
        if vacuum:
            why = "zero-weight" if total_mass == 0 else "zero-density"
            if not all(np.all(np.asarray(g) == 0) for g in got):
                acc.violation("vacuum-not-zero:%s:%s" % (why, self.kind), case, expected=[0, 0, 0],
                              observed=[np.asarray(g).tolist() for g in got], standalone=snip())
                return False
            acc.outcome("%s:%s:zeros" % (self.form, why))
            return True
        acc.nontrivial += 1
        # the direct route on the weighted sum
        atoms = {}
        for i, wi in zip(self.mats, weights):
            if wi == 0:
                continue
            for a, q in E.atoms[i]:
                atoms[a] = atoms.get(a, 0) + wi * q
        with np.errstate(all="ignore"):
            if self.wl is None:
                exp = E.nsf.neutron_sld(atoms, density=density)
            else:
                exp = E.nsf.neutron_sld(atoms, density=density, wavelength=self.wl)
        # shapes
        for name, g in zip(("real", "imaginary", "incoherent"), got):
            if np.shape(g) != self.shape:
                acc.violation("shape:%s:%s" % (self.form if self.form != "arrN" else "arrN", name), case,
                              expected=list(self.shape), observed=list(np.shape(g)), standalone=snip())
                return False
        try:
            exp = [np.broadcast_to(np.asarray(x, dtype=float), self.shape) for x in exp]
        except ValueError:
            acc.count("direct_route_shape_not_broadcastable_not_judged")
            return True
        got = [np.asarray(g, dtype=float) for g in got]
        # scales (sums of magnitudes of the terms)
        n_atoms = sum(wi * x for wi, x in zip(weights, self.n_atoms))
        per_volume = density * E.NA * 1e-24 / total_mass          # formula units per cubic Angstrom
        number_density = n_atoms * per_volume
        sc_re = 10 * per_volume * sum(wi * x for wi, x in zip(weights, self.abs_re))
        sc_im = 10 * per_volume * sum(wi * x for wi, x in zip(weights, self.abs_im))
        sigma_s = sum(wi * x for wi, x in zip(weights, self.sig)) / n_atoms
        sc_re, sc_im, sigma_s = [np.asarray(x).reshape(self.shape) for x in (sc_re, sc_im, sigma_s)]
        for name, g, e, sc in (("real", got[0], exp[0], sc_re), ("imaginary", got[1], exp[1], sc_im)):
            ok = np.abs(g - e) <= REL * np.maximum(np.maximum(np.abs(sc), np.abs(g)), np.abs(e)) + 1e-300
            if not np.all(ok):          # NaN compares False
                acc.violation("%s:%s" % (name, self.kind), case, expected=e.tolist(), observed=g.tolist(),
                              standalone=snip(), detail="scale %r" % (np.asarray(sc).tolist(),))
                return False
        si_g = (got[2] / (10 * number_density)) ** 2 * _4PI_100
        si_e = (exp[2] / (10 * number_density)) ** 2 * _4PI_100
        ok = np.abs(si_g - si_e) <= REL * np.maximum(si_g, si_e) + ABS_SIGMA * sigma_s + 1e-300
        # class of the incoherent term, for the outcome histogram and the signature
        b = sum(wi * x for wi, x in zip(weights, self.bsum)) / n_atoms
        diff = sigma_s - _4PI_100 * abs(np.asarray(b).reshape(self.shape)) ** 2
        pos = diff > ABS_SIGMA * sigma_s
        cls = "positive" if np.all(pos) else "clipped-or-noise" if not np.any(pos) else "both"
        if not np.all(ok) or np.any(got[2] < 0):
            acc.violation("incoherent:%s:sigma_i-%s" % (self.kind, cls), case, expected=exp[2].tolist(),
                          observed=got[2].tolist(), standalone=snip(),
                          detail="sigma_i expected %r observed %r, sigma_s %r"
                                 % (np.asarray(si_e).tolist(), np.asarray(si_g).tolist(), np.asarray(sigma_s).tolist()))
            return False
        acc.outcome("%s:values:sigma_i-%s" % (self.form, cls))
        return True


def check_list(E, acc, mats, forms, sample=False):
    n = len(mats)
    wvecs = list(itertools.product(WEIGHTS, repeat=n))
    for form in forms:
        if form == "arrN" and n == 1:
            continue            # identical to 'arr1' up to the wavelength value
        lc = ListCheck(E, mats, form)
        if not lc.build(acc):
            continue
        for weights in wvecs:
            stop = False
            for density in DENSITIES:
                if not lc.check(acc, weights, density):
                    stop = True
                    break
            if stop:
                break               # one violation per (list, form) is enough
        else:
            if sample:
                acc.sample(lc.case(wvecs[-1], DENSITIES[-1]))


def _shard(args):
    lists, tier, _ = args
    E = Env()
    acc = Acc()
    forms = FORMS_QUICK if tier == "quick" else FORMS_THOROUGH
    for k, mats in enumerate(lists):
        check_list(E, acc, mats, forms, sample=(k == 0))
    acc.traces = acc.transitions
    return acc


def run(ctx):
    maxlen = 2 if ctx.quick else 3
    lists = all_lists(maxlen)
    if ctx.quick:
        lists = lists + repeated_triples()
    lists = rotate(lists, ctx.seed)
    nshards = 32 if ctx.quick else 96
    jobs = [(part, ctx.tier, i) for i, part in enumerate(chunks(lists, nshards))]
    ctx.pmap(_shard, jobs)
    acc = ctx.acc
    acc.traces = acc.transitions
    acc.info["lists"] = len(lists)
    acc.info["max_list_length"] = maxlen
    acc.info["materials"] = list(MATERIALS)
    acc.info["wavelength_forms"] = list(FORMS_QUICK if ctx.quick else FORMS_THOROUGH)


def replay(ctx, case, signature=None):
    E = Env()
    try:
        mats = [MATERIALS.index(s) for s in case["materials"]]
    except ValueError:
        raise MachineryError("replay case names a material outside the alphabet: %r" % (case["materials"],))
    lc = ListCheck(E, mats, case["wl"])
    if not lc.build(ctx.acc):
        return
    if "weights" in case:
        lc.check(ctx.acc, tuple(case["weights"]), case["density"])
