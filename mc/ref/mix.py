"""Reference model for C11 (mixtures).  Plain arithmetic, no code shared with the library.

A material is (atoms, density): atoms maps a species name to a positive count (the formula unit
is arbitrary), density is g/cm^3 or None.  `mix` predicts the composition of a mixture directly
from its components:  sum_i n_i * atoms_i  with  n_i = q_i / m_i  (by weight)  resp.
n_i = q_i * rho_i / m_i  (by volume).  Nothing is normalised: results are compared up to one
common factor (`compare_atoms`), per species, relative to that species' own count - every term
is positive, so nothing cancels.  The result is never decomposed back into its components.

The second half is the reading of the documented string forms (formula_grammar.rst): a tiny AST,
its printer, and the arithmetic of the stated absolute amounts (grams, metres)."""
import re
from fractions import Fraction

# ---------------------------------------------------------------- materials
ERROR = "error"        # documented error case (missing density for a volume)
EMPTY = "empty"        # every quantity is zero


class Mat(object):
    __slots__ = ("atoms", "density")

    def __init__(self, atoms, density):
        self.atoms = atoms
        self.density = density

    def scaled(self, k):
        return Mat(dict((a, c * k) for a, c in self.atoms.items()), self.density)


def mass_of(atoms, amass):
    return sum(c * amass[a] for a, c in atoms.items())


def mix(kind, parts, amass):
    """parts = [(Mat, quantity >= 0)].  Returns Mat, EMPTY or ERROR."""
    live = [(m, q) for m, q in parts if q > 0]
    if not live:
        return EMPTY
    if kind == "v":
        for m, q in live:
            if m.density is None:
                return ERROR
    atoms = {}
    for m, q in live:
        mm = mass_of(m.atoms, amass)
        n = q / mm if kind == "w" else q * m.density / mm
        for a, c in m.atoms.items():
            atoms[a] = atoms.get(a, 0.0) + n * c
    if kind == "w":
        if all(m.density is not None for m, q in live):
            density = sum(q for m, q in live) / sum(q / m.density for m, q in live)
        else:
            density = None
    else:
        density = sum(q * m.density for m, q in live) / sum(q for m, q in live)
    return Mat(atoms, density)


def same_compound(a, b, rel=1e-12):
    """Two atom tables describe the same compound: equal species in equal proportions (the formula unit is
    arbitrary)."""
    if set(a) != set(b):
        return False
    k0 = sorted(a)[0]
    return all(abs(a[k] * b[k0] - b[k] * a[k0]) <= rel * abs(a[k] * b[k0]) for k in a)


def compare_atoms(got, want, amass, rel=1e-9):
    """got, want: {species: count}.  Equality up to one common positive factor, per species.
    Species with a zero count have vanished and are ignored.  Returns None or (what, detail)."""
    got = dict((a, c) for a, c in got.items() if c != 0)
    want = dict((a, c) for a, c in want.items() if c != 0)
    if set(got) != set(want):
        return ("species", "species %s, expected %s" % (sorted(got), sorted(want)))
    if not got:
        return None
    for a, c in got.items():
        if not (c > 0 and c == c and c != float("inf")):
            return ("atoms", "count of %s is %r" % (a, c))
    mg = mass_of(got, amass)
    mw = mass_of(want, amass)
    # cross-multiplied: got[a]/mg == want[a]/mw  (the common factor is the ratio of total masses)
    worst = None
    for a in want:
        x = got[a] * mw
        y = want[a] * mg
        err = abs(x - y) / max(abs(x), abs(y))
        if err > rel and (worst is None or err > worst[0]):
            worst = (err, a)
    if worst is not None:
        k = mw / mg
        return ("atoms", "mole fraction of %s off by %.3g relative; got (rescaled) %s expected %s"
                % (worst[1], worst[0],
                   sorted((a, c * k) for a, c in got.items()), sorted(want.items())))
    return None


# ---------------------------------------------------------------- documented string forms
# unit :: mass | volume | length   (formula_grammar.rst); grams, litres, metres
MASS = {"kg": 1e3, "g": 1.0, "mg": 1e-3, "ug": 1e-6, "ng": 1e-9}
VOLUME = {"L": 1.0, "mL": 1e-3, "uL": 1e-6, "nL": 1e-9}
LENGTH = {"cm": 1e-2, "mm": 1e-3, "um": 1e-6, "nm": 1e-9}
MASS_ORDER = ("g", "kg", "mg", "ug", "ng")
VOLUME_ORDER = ("mL", "L", "uL", "nL")
LENGTH_ORDER = ("nm", "cm", "mm", "um")
MV_ORDER = MASS_ORDER + VOLUME_ORDER
CM3_PER_LITRE = 1000.0

WEIGHT_WORDS = ("wt", "w", "weight", "mass", "m")
VOLUME_WORDS = ("vol", "v", "volume")
WEIGHT_SPELLINGS = tuple(w + "%" for w in WEIGHT_WORDS) + tuple("%" + w for w in WEIGHT_WORDS)
VOLUME_SPELLINGS = tuple(w + "%" for w in VOLUME_WORDS) + tuple("%" + w for w in VOLUME_WORDS)
CANON_SPELLING = {"w": "wt%", "v": "vol%"}
SEPARATORS = (" // ", "//", " //", "// ")

# Forced collisions: a compound that directly follows a percent sign or a unit and whose leading element
# symbol begins (case-insensitively) with a letter that also begins a percent word or a unit spelling
# (W ~ w/wt/weight, Mo Mg Mn ~ m/mass/mg/mL/mm, V ~ v/vol, K ~ kg, Ge ~ g, U ~ ug/uL/um, N ~ ng/nL/nm,
# Li ~ L, Cm ~ cm).  The grammar must read these exactly like any other compound.
UNIT_WORDS = WEIGHT_WORDS + VOLUME_WORDS + tuple(MASS) + tuple(VOLUME) + tuple(LENGTH)
COLLISION_LETTERS = frozenset(w[0].lower() for w in UNIT_WORDS)
_LEAD = re.compile(r"[0-9.]*([A-Z])")


def collides(symbol):
    return symbol[:1].lower() in COLLISION_LETTERS


def lead_letter(text):
    """Leading capital of a compound text if it is a collision letter, else None."""
    m = _LEAD.match(text)
    if m and m.group(1).lower() in COLLISION_LETTERS:
        return m.group(1)
    return None


_COUNT = re.compile(r"([0-9]+\.?[0-9]*|\.[0-9]+)(?=[A-Z(])")


def leading_count(text):
    """The leading count of a compound text (its formula unit is written scaled), or None."""
    m = _COUNT.match(text)
    return m.group(0) if m else None


def spelling_class(sp):
    """'%word' / 'word%' for the spelled percentages, the spelling itself for the bare %."""
    return sp if sp == "%" else "%word" if sp.startswith("%") else "word%"


def respell(node, feat, index):
    """The same derivation with the spelling named by `feat` ('first=..' / 'later=..') replaced by the
    spelling of the same shape built from the index-th word of its kind (None if there is no such word)."""
    t = node[0]
    if t == "c":
        return node
    if t == "n":
        inner = respell(node[1], feat, index)
        return None if inner is None else ["n", inner, node[2]]
    if t == "p":
        words = WEIGHT_WORDS if node[1] == "w" else VOLUME_WORDS
        parts = []
        for i, (v, sp, p) in enumerate(node[2]):
            if feat == ("first=" if i == 0 else "later=") + sp and sp != "%":
                if index >= len(words):
                    return None
                sp = "%" + words[index] if sp.startswith("%") else words[index] + "%"
            p = respell(p, feat, index)
            if p is None:
                return None
            parts.append([v, sp, p])
        last = respell(node[3], feat, index)
        return None if last is None else ["p", node[1], parts, last]
    items = []
    for it in node[2]:
        if it[0] == "u":
            p = respell(it[3], feat, index)
            if p is None:
                return None
            items.append(["u", it[1], it[2], p])
        else:
            q = respell(it[1], feat, index)
            if q is None:
                return None
            items.append(["g", q, it[2]])
    return ["q", node[1], items]


NEUTRAL_COMPOUND = "Ti"      # leading letter begins no percent word and no unit

# AST (JSON-able lists):
#   ["c", text]                                   compound (text in the compound grammar)
#   ["p", kind, [[value, spelling, part], ...], lastpart]      percentage mixture, kind 'w' | 'v'
#   ["q", fam, [item, ...]]                       quantity mixture, fam 'm' (mass/volume) | 'l' (length)
#         item = ["u", value, unit, part] | ["g", qnode, count-or-None]   (repeated group)
#   ["n", mixture, tag]                           '(' mixture ')' used as a part; tag None|"2.5"|"1.5n"
# values and counts are decimal strings exactly as printed.


def is_mixture(node):
    return node[0] in ("p", "q")


def render(node, lex):
    """AST -> string.  lex = dict(sep=..., cs=... space between a number and its unit/percent)."""
    sep, cs = lex.get("sep", " // "), lex.get("cs", "")
    t = node[0]
    if t == "c":
        return node[1]
    if t == "n":
        return "(" + render(node[1], lex) + ")" + ("@" + node[2] if node[2] else "")
    if t == "p":
        out = ["%s%s%s %s" % (v, cs, sp, render(p, lex)) for v, sp, p in node[2]]
        out.append(render(node[3], lex))
        return sep.join(out)
    if t == "q":
        out = []
        for it in node[2]:
            if it[0] == "u":
                out.append("%s%s%s %s" % (it[1], cs, it[2], render(it[3], lex)))
            else:
                out.append("(" + render(it[1], lex) + ")" + (it[2] or ""))
        return sep.join(out)
    raise ValueError(node)


def percent_class(values):
    """Exact classification of the explicit percentages: 'over' (> 100), 'full' (== 100), 'ok'."""
    s = sum(Fraction(v) for v in values)
    return "over" if s > 100 else "full" if s == 100 else "ok"


def submixtures(node):
    """Proper sub-derivations that are complete formulas themselves (checked before the parent):
    the mixture inside every '(' ... ')' part, the mixture inside every repeated group, and the
    repeated group alone as a one-part quantity mixture."""
    out = []
    t = node[0]
    if t == "n":
        out.append(node[1])
    elif t == "p":
        for v, sp, p in node[2]:
            out += submixtures(p) if p[0] != "n" else [p[1]]
        p = node[3]
        out += submixtures(p) if p[0] != "n" else [p[1]]
    elif t == "q":
        for it in node[2]:
            if it[0] == "u":
                p = it[3]
                out += submixtures(p) if p[0] != "n" else [p[1]]
            else:
                out.append(it[1])
                if len(node[2]) > 1 and it[2]:
                    out.append(["q", node[1], [it]])
    return out


def compounds(node, out=None):
    """All compound texts of a derivation, in reading order."""
    out = [] if out is None else out
    t = node[0]
    if t == "c":
        out.append(node[1])
    elif t == "n":
        compounds(node[1], out)
    elif t == "p":
        for v, sp, p in node[2]:
            compounds(p, out)
        compounds(node[3], out)
    else:
        for it in node[2]:
            compounds(it[3] if it[0] == "u" else it[1], out)
    return out


def stem(text):
    return text.split("@")[0]


def same_density_map(node):
    """{text: first text with the same stem} for every compound that occurs with two different density tags
    (or with and without one): 'SiO2@2.2 ... SiO2@2.65' - forced collision of structure-equal components."""
    first, out = {}, {}
    for text in compounds(node):
        k = stem(text)
        if k not in first:
            first[k] = text
        elif first[k] != text:
            out[text] = first[k]
    return out


def map_compounds(node, m):
    t = node[0]
    if t == "c":
        return ["c", m.get(node[1], node[1])]
    if t == "n":
        return ["n", map_compounds(node[1], m), node[2]]
    if t == "p":
        return ["p", node[1], [[v, sp, map_compounds(p, m)] for v, sp, p in node[2]], map_compounds(node[3], m)]
    return ["q", node[1], [["u", it[1], it[2], map_compounds(it[3], m)] if it[0] == "u"
                           else ["g", map_compounds(it[1], m), it[2]] for it in node[2]]]


def halve(value):
    """Half of a decimal string, as a decimal string of the grammar (no exponent)."""
    from decimal import Decimal
    return format(Decimal(value) / 2, "f")


FULL = "percentages-sum-to-100"
REPEAT = "same-compound-other-density"


def features(node, acc=None, top=True):
    """Deviations from the canonical spelling, used to name the cause of a failure."""
    acc = set() if acc is None else acc
    t = node[0]
    if top and same_density_map(node):
        acc.add(REPEAT)
    if t == "p" and percent_class([v for v, sp, p in node[2]]) == "full":
        acc.add(FULL)
    if t == "c":
        if lead_letter(node[1]):
            acc.add("lead=" + lead_letter(node[1]))
        if leading_count(node[1]):
            acc.add("scaled")
    elif t == "n":
        acc.add("nested")
        if node[2]:
            acc.add("tag")
        features(node[1], acc, False)
    elif t == "p":
        for i, (v, sp, p) in enumerate(node[2]):
            if i == 0 and sp != CANON_SPELLING[node[1]]:
                acc.add("first=" + sp)
            if i > 0 and sp != "%":
                acc.add("later=" + sp)
            features(p, acc, False)
        features(node[3], acc, False)
    elif t == "q":
        for it in node[2]:
            if it[0] == "u":
                if it[2] not in ("g", "mL", "nm"):
                    acc.add("unit=" + it[2])
                features(it[3], acc, False)
            else:
                acc.add("group")
                features(it[1], acc, False)
    return acc


def revert(node, feat):
    """The same derivation with one deviation taken back (still a valid case of the space)."""
    t = node[0]
    if feat == REPEAT:
        return map_compounds(node, same_density_map(node))
    if t == "c":
        if feat.startswith("lead=") and lead_letter(node[1]) == feat[5:]:
            return ["c", (leading_count(node[1]) or "") + NEUTRAL_COMPOUND]
        if feat == "scaled" and leading_count(node[1]):
            return ["c", node[1][len(leading_count(node[1])):]]
        return node
    if t == "n":
        if feat == "nested":
            return ["c", NEUTRAL_COMPOUND]
        return ["n", revert(node[1], feat), None if feat == "tag" else node[2]]
    if t == "p":
        parts = []
        full = feat == FULL and percent_class([v for v, sp, p in node[2]]) == "full"
        for i, (v, sp, p) in enumerate(node[2]):
            if full:
                v = halve(v)
            if i == 0 and feat == "first=" + sp:
                sp = CANON_SPELLING[node[1]]
            if i > 0 and feat == "later=" + sp:
                sp = "%"
            parts.append([v, sp, revert(p, feat)])
        return ["p", node[1], parts, revert(node[3], feat)]
    if t == "q":
        items = []
        for it in node[2]:
            if it[0] == "u":
                u = it[2]
                if feat == "unit=" + u:
                    u = "g" if u in MASS else "mL" if u in VOLUME else "nm"
                items.append(["u", it[1], u, revert(it[3], feat)])
            elif feat == "group":
                items += revert(it[1], feat)[2]          # splice the group's parts in line
            else:
                items.append(["g", revert(it[1], feat), it[2]])
        return ["q", node[1], items]
    raise ValueError(node)
