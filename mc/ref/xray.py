"""Independent readers and reference equations for the X-ray part of periodictable (C05, C20).

Part 1 - readers (work on the TEXT of the data files, share no code with the library):
    nff_symbols()                 -> sorted file stems of periodictable/xsf/*.nff
    read_nff(path)                -> NffTable   (energy eV -> keV, f1 == -9999 -> NaN)
    nff_tables()                  -> {stem: NffTable}      (cached)
    read_f0(path=None)            -> F0File     (entries in file order + duplicate report)
    f0_coefficients()             -> {symbol: (a[5], c, b[5])}   (cached)
    f0_entries()                  -> [dict(Z, symbol, a, c, b, line)]  in file order (cached)
    cromer_mann_coefficients()    -> same dict as f0_coefficients() (the name C20 uses)
  Anomalies of the data (duplicated energies, energies out of order, duplicated symbols) are
  REPORTED in the returned object, never resolved silently.

Part 2 - reference equations, plain Python floats:
    sf_candidates(table, E, fuzzy)  by-hand linear interpolation (bisection), NaN outside
    wavelength_of_energy / energy_of_wavelength       lambda = h c / E
    sld_reference(terms, mass, density, consts)       rho, irho = r_e N_A rho_m / m * sum c f1, f2
    index_reference(wavelength, rho, irho)            n = 1 - lambda^2/(2 pi) (rho + i irho) 1e-6
    f0_reference(a, c, b, Q)                          sum a_i exp(-b_i s^2) + c, s = Q/(4 pi), NaN for s > 6
"""
import os, re, math, glob
from decimal import Decimal
from ..common import REPO, MachineryError

XSF_DIR = os.path.join(REPO, "periodictable", "xsf")
NAN = float("nan")


# ======================================================================= .nff reader
class NffTable(object):
    """One Henke table.  Attributes:
    stem        file stem ('si')
    labels      column labels of the header line, e.g. ['E(eV)', 'f1', 'f2']
    energy_text energies as written (eV)
    energy      energies in keV (correctly rounded decimal value / 1000)
    ambiguous   per node: True if text*0.001, text/1000 and the decimal value round differently
                (the keV position of the node is then only known to one ulp)
    f1, f2      floats, f1/f2 == -9999 -> NaN
    duplicates  [(i, j, energy_text)]  consecutive rows i, j=i+1 with the same energy
    descending  [(i, energy_text_i, energy_text_i+1)]  rows whose energy is LOWER than the row before
    zones       [(lo_keV, hi_keV)] closed intervals in which "the linear interpolation of the
                tabulated values" is not defined because the rows are out of order there: from
                the node before the first disorder to the node after the last one."""

    def __init__(self, stem):
        self.stem = stem
        self.labels = []
        self.energy_text, self.energy, self.ambiguous, self.f1, self.f2 = [], [], [], [], []
        self.duplicates, self.descending, self.zones = [], [], []

    def __len__(self):
        return len(self.energy)


def nff_symbols():
    return sorted(os.path.basename(p)[:-4] for p in glob.glob(os.path.join(XSF_DIR, "*.nff")))


def _missing(text):
    """-9999 (written '-9999.', '-9999.0', ...) marks a missing value."""
    return Decimal(text) == Decimal(-9999)


def read_nff(path):
    stem = os.path.basename(path)[:-4]
    t = NffTable(stem)
    with open(path, "r", newline="") as f:
        raw = f.read()
    lines = raw.replace("\r\n", "\n").replace("\r", "\n").split("\n")
    if not lines or not lines[0].strip():
        raise MachineryError("%s: no header line" % path)
    t.labels = lines[0].split()
    low = [l.lower() for l in t.labels]
    try:
        ie = [i for i, l in enumerate(low) if l.startswith("e")][0]
        i1, i2 = low.index("f1"), low.index("f2")
    except (IndexError, ValueError):
        raise MachineryError("%s: header %r does not name E, f1, f2" % (path, lines[0]))
    if "ev" not in low[ie] or "kev" in low[ie]:
        raise MachineryError("%s: energy column %r is not in eV" % (path, t.labels[ie]))
    for no, ln in enumerate(lines[1:], 2):
        if not ln.strip():
            continue
        w = ln.split()
        if len(w) != len(t.labels):
            raise MachineryError("%s line %d: %d fields for %d columns" % (path, no, len(w), len(t.labels)))
        e = w[ie]
        d = Decimal(e)
        kev = float(d / 1000)
        t.energy_text.append(e)
        t.energy.append(kev)
        t.ambiguous.append(not (kev == float(e) * 0.001 == float(e) / 1000.0))
        t.f1.append(NAN if _missing(w[i1]) else float(w[i1]))
        t.f2.append(NAN if _missing(w[i2]) else float(w[i2]))
    n = len(t.energy)
    if n < 2:
        raise MachineryError("%s: %d rows" % (path, n))
    bad = []
    for i in range(n - 1):
        a, b = Decimal(t.energy_text[i]), Decimal(t.energy_text[i + 1])
        if a == b:
            t.duplicates.append((i, i + 1, t.energy_text[i]))
        elif b < a:
            t.descending.append((i, t.energy_text[i], t.energy_text[i + 1]))
            bad.append(i)
    # A disorder x[i] > x[i+1] spoils the rows i-1 .. i+2 and every row whose energy lies inside
    # their hull: widen [start, end] until all rows before it are below the hull and all rows
    # after it are above it.  Outside the zones the table is strictly ascending.
    for i in bad:
        start, end = max(i - 1, 0), min(i + 2, n - 1)
        while True:
            lo, hi = min(t.energy[start:end + 1]), max(t.energy[start:end + 1])
            s2 = min([k for k in range(start) if t.energy[k] >= lo] + [start])
            e2 = max([k for k in range(end + 1, n) if t.energy[k] <= hi] + [end])
            if (s2, e2) == (start, end):
                break
            start, end = s2, e2
        t.zones.append((lo, hi))
    t.zones = _merge(t.zones)
    return t


def _merge(zones):
    out = []
    for lo, hi in sorted(zones):
        if out and lo <= out[-1][1]:
            out[-1] = (out[-1][0], max(out[-1][1], hi))
        else:
            out.append((lo, hi))
    return out


_NFF = {}


def nff_tables():
    if not _NFF:
        for stem in nff_symbols():
            _NFF[stem] = read_nff(os.path.join(XSF_DIR, stem + ".nff"))
    return _NFF


# ======================================================================= f0_WaasKirf.dat reader
class F0File(object):
    """entries: [dict(Z, symbol, a, c, b, line)] in file order; duplicates: symbols listed twice."""
    def __init__(self):
        self.entries, self.duplicates = [], []


def read_f0(path=None):
    """The file states its own layout: '#S <Z> <symbol>' starts a scan, '#N <n>' gives the number of
    columns, '#L a1 a2 ... c b1 ...' names them, the next non-comment line holds the values."""
    path = path or os.path.join(XSF_DIR, "f0_WaasKirf.dat")
    out = F0File()
    seen = set()
    cur = None
    with open(path, "r") as f:
        for no, ln in enumerate(f, 1):
            s = ln.strip()
            if not s:
                continue
            if s.startswith("#S"):
                if cur is not None:
                    raise MachineryError("%s line %d: scan %r has no data line" % (path, no, cur))
                w = s[2:].split()
                if len(w) != 2:
                    raise MachineryError("%s line %d: bad #S line %r" % (path, no, s))
                cur = dict(Z=int(w[0]), symbol=w[1], line=no, N=None, labels=None)
            elif s.startswith("#N"):
                if cur is not None:
                    cur["N"] = int(s[2:].split()[0])
            elif s.startswith("#L"):
                if cur is not None:
                    cur["labels"] = s[2:].split()
            elif s.startswith("#"):
                continue
            else:
                if cur is None:
                    raise MachineryError("%s line %d: data without #S header" % (path, no))
                labels = cur["labels"]
                if labels is None:
                    raise MachineryError("%s line %d: data without #L header" % (path, no))
                w = s.split()
                if cur["N"] is not None and cur["N"] != len(labels):
                    raise MachineryError("%s line %d: #N %d but %d labels" % (path, no, cur["N"], len(labels)))
                if len(w) != len(labels):
                    raise MachineryError("%s line %d: %d values for %d labels" % (path, no, len(w), len(labels)))
                col = {}
                for lab, val in zip(labels, w):
                    if lab in col:
                        raise MachineryError("%s line %d: label %r twice" % (path, no, lab))
                    col[lab] = float(val)
                want = ["a%d" % i for i in range(1, 6)] + ["c"] + ["b%d" % i for i in range(1, 6)]
                if sorted(col) != sorted(want):
                    raise MachineryError("%s line %d: labels %r" % (path, no, labels))
                ent = dict(Z=cur["Z"], symbol=cur["symbol"], line=cur["line"],
                           a=tuple(col["a%d" % i] for i in range(1, 6)), c=col["c"],
                           b=tuple(col["b%d" % i] for i in range(1, 6)))
                if ent["symbol"] in seen:
                    out.duplicates.append(ent["symbol"])
                seen.add(ent["symbol"])
                out.entries.append(ent)
                cur = None
    if cur is not None:
        raise MachineryError("%s: last scan %r has no data line" % (path, cur))
    return out


_F0 = []


def f0_file():
    if not _F0:
        _F0.append(read_f0())
    return _F0[0]


def f0_entries():
    return f0_file().entries


def f0_coefficients():
    """{symbol: (a[5], c, b[5])}; refuses to choose between duplicated symbols."""
    ff = f0_file()
    if ff.duplicates:
        raise MachineryError("f0_WaasKirf.dat lists %r more than once" % ff.duplicates)
    return dict((e["symbol"], (e["a"], e["c"], e["b"])) for e in ff.entries)


def cromer_mann_coefficients():
    """{symbol as written in f0_WaasKirf.dat: ((a1..a5), c, (b1..b5))} for every '#S' entry of the
    file (211, including the valence states 'Cval' and 'Siva').  Raises MachineryError if the file
    lists a symbol twice (nothing is resolved silently).  Name used by C20."""
    return f0_coefficients()


_F0SYM = re.compile(r"^([A-Z][a-z]?)(?:([0-9]+)([+-]))?$")


def f0_symbol_parts(symbol):
    """'Fe2+' -> ('Fe', 2); 'O' -> ('O', 0); 'Cval', 'Siva' (valence states) -> None."""
    m = _F0SYM.match(symbol)
    if not m:
        return None
    q = int(m.group(2)) if m.group(2) else 0
    return m.group(1), (q if m.group(3) != "-" else -q)


# ======================================================================= reference equations
FUZZ = 1e-14      # a query this close (relative) to a node cannot be told from the node after a
                  # round trip energy -> wavelength -> energy


def in_zone(table, E, pad=1e-12):
    for lo, hi in table.zones:
        if lo * (1 - pad) <= E <= hi * (1 + pad):
            return True
    return False


def _upper(xs, x):
    """Bisection: largest i with xs[i] <= x (xs ascending, xs[0] <= x)."""
    lo, hi = 0, len(xs) - 1
    while lo < hi:
        mid = (lo + hi + 1) // 2
        if xs[mid] <= x:
            lo = mid
        else:
            hi = mid - 1
    return lo


XERR = 8 * 2.220446049250313e-16   # relative uncertainty of an energy: the keV value of a node depends on
                                   # how eV is converted (1 ulp), a wavelength round trip costs 2-3 ulps
TOL_REF = 1e-9                     # the relative tolerance the returned scales are meant for


def _slope_allowance(xs, col, i, x):
    """|d value| caused by moving x by XERR*x along the segment (i, i+1), expressed as a scale for
    TOL_REF (conditioning: next to an absorption edge a value of 1e-15 sits 0.2 eV from one of 7)."""
    if i < 0 or i + 1 >= len(xs) or xs[i + 1] <= xs[i]:
        return 0.0
    y0, y1 = col[i], col[i + 1]
    if y0 != y0 or y1 != y1:
        return 0.0
    return XERR * x * abs(y1 - y0) / (xs[i + 1] - xs[i]) / TOL_REF


def sf_candidates(table, E, fuzzy=False):
    """Acceptable (f1, f2) at energy E (keV): list of ((f1, f2), (scale1, scale2)), or None when
    E lies in a zone where the table rows are out of order (not judged).  A scale is the sum of the
    magnitudes of the terms of the interpolation plus the conditioning allowance above; compare with
    |observed - value| <= 1e-9 * scale.

    Strict: NaN outside [first, last]; at a node the tabulated row (all rows of a duplicated
    energy); between nodes the straight line through the two neighbours (NaN if either is missing).
    fuzzy=True additionally accepts, for a node within FUZZ of E, the limits from the left and from
    the right (which differ from the row only at the table ends and next to missing values)."""
    if in_zone(table, E):
        return None
    xs, n = table.energy, len(table.energy)
    cols = (table.f1, table.f2)
    out = []

    def node_scale(col, k):
        if col[k] != col[k]:
            return 0.0
        return abs(col[k]) + max(_slope_allowance(xs, col, k - 1, xs[k]), _slope_allowance(xs, col, k, xs[k]))

    def row(k):
        out.append(((cols[0][k], cols[1][k]), (node_scale(cols[0], k), node_scale(cols[1], k))))

    def limits(k):
        for nb in (k - 1, k + 1):           # limit from the left, from the right
            if nb < 0 or nb >= n:
                out.append(((NAN, NAN), (0.0, 0.0)))
            else:
                v = tuple(c[k] if c[nb] == c[nb] else NAN for c in cols)
                out.append((v, (node_scale(cols[0], k), node_scale(cols[1], k))))

    if E < xs[0] or E > xs[-1]:
        out.append(((NAN, NAN), (0.0, 0.0)))
        i = 0 if E < xs[0] else n - 1
    else:
        i = _upper(xs, E)
        if xs[i] == E:
            k = i
            while k >= 0 and xs[k] == E:
                row(k)
                k -= 1
        else:
            x0, x1 = xs[i], xs[i + 1]
            t = (E - x0) / (x1 - x0)
            v, sc = [], []
            for c in cols:
                y0, y1 = c[i], c[i + 1]
                if y0 != y0 or y1 != y1:
                    v.append(NAN)
                    sc.append(0.0)
                else:
                    v.append(y0 + t * (y1 - y0))
                    sc.append(abs(y0) + abs(y1) + _slope_allowance(xs, c, i, E))
            out.append((tuple(v), tuple(sc)))
    if fuzzy:
        for k in range(max(i - 2, 0), min(i + 3, n)):
            if abs(xs[k] - E) <= FUZZ * xs[k]:
                row(k)
                limits(k)
    return out


def node_is_fuzzy(table, k):
    """The keV position of node k depends on how eV is converted (one ulp): next to a
    discontinuity (table end, missing neighbour, duplicate) the node itself is then not decidable."""
    return table.ambiguous[k]


def edge_pairs(table):
    """Sharp absorption edges as the table shows them ('points added 0.1 eV above and below sharp
    absorption edges'): consecutive nodes closer than 0.4 % in energy (the logarithmic mesh has
    1.6 %) across which f2 RISES by more than 5 % (f2 falls with energy everywhere else).
    Returns [(i, i+1)] - the two nodes bracketing each edge."""
    xs = table.energy
    return [(i, i + 1) for i in range(len(xs) - 1)
            if 0 < (xs[i + 1] - xs[i]) / xs[i] < 0.004 and table.f2[i + 1] > 1.05 * table.f2[i]]


def wavelength_of_energy(E_keV, consts):
    """lambda [Ang] = h [eV s] * c [m/s] / E;  eV/keV = 1e-3, m/Ang = 1e10  ->  1e7."""
    return consts.plancks_constant * consts.speed_of_light / E_keV * 1e7


def energy_of_wavelength(wl, consts):
    return consts.plancks_constant * consts.speed_of_light / wl * 1e7


def sld_reference(terms, mass, density, consts):
    """terms = [(count, f1, f2)] or [(count, f1, f2, scale1, scale2)]; mass in u (= g/mol), density
    in g/cm^3.  N [1/cm^3] = rho_m / m * N_A;  1/cm^3 = 1e-24 / Ang^3;  r_e [m] = 1e10 Ang;  result
    in units of 1e-6 / Ang^2 (x 1e6)  ->  overall 1e-8.  Returns (rho, irho, scale_rho, scale_irho)
    where the scales are the same expression over the magnitudes (scales) of the terms."""
    pre = consts.electron_radius * consts.avogadro_number * density / mass * 1e-8
    s1 = s2 = a1 = a2 = 0.0
    for term in terms:
        c, f1, f2 = term[:3]
        m1, m2 = (term[3], term[4]) if len(term) == 5 else (abs(f1) if f1 == f1 else 0.0, abs(f2) if f2 == f2 else 0.0)
        s1 += c * f1
        s2 += c * f2
        a1 += abs(c) * m1
        a2 += abs(c) * m2
    return pre * s1, pre * s2, abs(pre) * a1, abs(pre) * a2


def index_reference(wavelength, rho, irho):
    """n = 1 - lambda^2/(2 pi) * (rho + i irho) * 1e-6; also returns the magnitudes of the
    decrement (delta, beta) to scale the comparison (the oracle does not form 1 - n)."""
    k = wavelength * wavelength / (2.0 * math.pi) * 1e-6
    delta, beta = k * rho, k * irho
    return complex(1.0 - delta, -beta), abs(delta), abs(beta)


STOL_LIMIT = 6.0     # 'valid for the full range of sin(theta)/lambda from 0.0 to 6.0 A-1'


def f0_reference(a, c, b, Q):
    s = Q / (4.0 * math.pi)
    if s > STOL_LIMIT:
        return NAN
    tot = c
    for ai, bi in zip(a, b):
        tot += ai * math.exp(-bi * s * s)
    return tot
