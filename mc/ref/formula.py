"""Reference model of the documented *compound* grammar (doc/sphinx/guide/formula_grammar.rst).

Shares no code with periodictable.formulas (no pyparsing, no library import).  Four parts:

1. AST node types.  Nodes keep the SPELLING of every count / tag (so that `2.`, `.5`, `{+}` and
   `{1+}` stay distinguishable); values are derived by the denotation.
2. Printer:       `to_string(ast)`, `slots(ast)` (token slots incl. the empty optional ones).
3. Denotation:    `denote(ast) -> Denotation(atoms, charge, density)` with exact Fractions; binding of
   the abstract atom keys to the objects of a periodic table and the numeric density the string
   asks for (`bind_atom`, `expected_density`).
4. Reference reader: `readings(s, atom_ok)` = ALL derivations of a string under the documented
   grammar (used to assert that a generated sentence has exactly one reading), and
   `derivable_liberal(s, atom_ok)` = an over-approximation of "some reading of the documentation
   accepts this string" (used to make sure that a string called malformed really is outside the
   documented language).

The documented productions (compound part):

    compound   :: group (separator group)* density?
    group      :: count element+ | '(' formula ')' count
    element    :: symbol isotope? ion? count?
    symbol     :: [A-Z][a-z]*
    isotope    :: '[' number ']'
    ion        :: '{' number? [+-] '}'
    density    :: '@' count                       (text: "D2O@1n" = natural density)
    count      :: number | fraction
    number     :: [1-9][0-9]*
    fraction   :: ([1-9][0-9]* | 0)? '.' [0-9]*
    separator  :: space? '+'? space?

Reading conventions of the STRICT reference (each one is also an assumption of the checks using it):

* `count` is optional wherever the grammar writes it in `group` and `element` (all examples of the
  guide rely on that: "CaCO3", "HO ((CH2)2O)6 H").  A density tag needs its number.
* Tokens are maximal (a symbol takes all following lower-case letters, a count all following
  digits / its dot) - the usual convention for the regular-expression productions.
* A count must contain a digit (the bare "." that `fraction` literally derives has no value).
* `space` is exactly one blank.  White space occurs nowhere else (it is only in `separator`).
* The empty separator is only possible next to a parenthesis ("CaCO3(H2O)6"), and never in front
  of a leading group count: a number that follows an element or a closing parenthesis is the count
  of that element / parenthesis.  Otherwise every "H2O" would be ambiguous (H2·O against H·2O), and
  so would the guide's own example "HO ((CH2)2O)6 H" ((CH2)2·O against (CH2)·2O).
* Inside parentheses only the compound productions without density are read (the mixture
  productions belong to property C11).
* The density suffix: none or 'i' = density of the isotope-specific compound as written, 'n' =
  density of the same compound with natural abundance ("D2O@1n"); 'i' is the explicit spelling of
  the default and comes from formulas.py (`Optional(Regex("[ni]"), default='i')`).
* `D` and `T` are the documented aliases of H[2] and H[3]; an isotope tag on them is not read.
"""
import re
from fractions import Fraction
from collections import namedtuple

# ------------------------------------------------------------------------------------ 1. AST
#: element: symbol text; iso = digits of the isotope tag or None; ion = inside of the braces
#: ('+', '2-', '1+') or None; count = spelling of the count or None
Elem = namedtuple("Elem", "symbol iso ion count")
#: count? element+   (count = spelling of the leading group count or None)
Implicit = namedtuple("Implicit", "count elems")
#: '(' seq ')' count?
Explicit = namedtuple("Explicit", "body count")
#: group (separator group)*;  len(seps) == len(groups) - 1, each separator is its spelling
Seq = namedtuple("Seq", "groups seps")
#: value = spelling of the number, tag in ('', 'n', 'i')
Density = namedtuple("Density", "value tag")
#: seq + optional Density
Compound = namedtuple("Compound", "seq density")

SEPARATORS = ("", " ", "+", " +", "+ ", " + ")
ALIASES = {"D": ("H", 2), "T": ("H", 3)}


def elem(symbol, iso=None, ion=None, count=None):
    return Elem(symbol, iso, ion, count)


def compound(groups, seps=None, density=None):
    groups = tuple(groups)
    seps = tuple(seps) if seps is not None else (" ",) * (len(groups) - 1)
    return Compound(Seq(groups, seps), density)


# ------------------------------------------------------------------------------------ 2. printer
def slots(node, out=None):
    """Token slots of a sentence, in order: [role, text] with the EMPTY optional slots included.

    roles: lead (leading group count), sym, iso, ion, cnt (element count), open, close,
    gcnt (count of a parenthesised group), sep, dens.  ''.join(text) is the sentence."""
    if out is None:
        out = []
    if isinstance(node, Compound):
        slots(node.seq, out)
        d = node.density
        out.append(["dens", "" if d is None else "@" + d.value + d.tag])
    elif isinstance(node, Seq):
        if len(node.seps) != len(node.groups) - 1:
            raise ValueError("Seq with %d groups and %d separators" % (len(node.groups), len(node.seps)))
        for i, g in enumerate(node.groups):
            if i:
                out.append(["sep", node.seps[i - 1]])
            slots(g, out)
    elif isinstance(node, Implicit):
        out.append(["lead", node.count or ""])
        for e in node.elems:
            slots(e, out)
    elif isinstance(node, Explicit):
        out.append(["open", "("])
        slots(node.body, out)
        out.append(["close", ")"])
        out.append(["gcnt", node.count or ""])
    elif isinstance(node, Elem):
        out.append(["sym", node.symbol])
        out.append(["iso", "" if node.iso is None else "[" + node.iso + "]"])
        out.append(["ion", "" if node.ion is None else "{" + node.ion + "}"])
        out.append(["cnt", node.count or ""])
    else:
        raise TypeError("not an AST node: %r" % (node,))
    return out


def to_string(node):
    return "".join(t for _, t in slots(node))


# ------------------------------------------------------------------------------------ 3. denotation
#: atoms: {(symbol, isotope number or 0, charge): Fraction}  (D/T normalised to H[2]/H[3]);
#: charge: Fraction; density: None | ('i', Fraction) | ('n', Fraction)
Denotation = namedtuple("Denotation", "atoms charge density")


def count_value(text):
    """Exact value of a count spelling ('12', '0.5', '.5', '2.', '12.25'); None -> 1."""
    if text is None or text == "":
        return Fraction(1)
    whole, dot, frac = text.partition(".")
    if not (whole + frac).isdigit():
        raise ValueError("not a count: %r" % text)
    return Fraction(int(whole or "0")) + (Fraction(int(frac), 10 ** len(frac)) if frac else 0)


def ion_value(text):
    """Charge of an ion tag spelling ('+', '-', '2+', '1-')."""
    sign = {"+": 1, "-": -1}[text[-1]]
    return sign * (int(text[:-1]) if len(text) > 1 else 1)


def atom_key(e):
    """(symbol, isotope or 0, charge) of an element node, aliases resolved."""
    iso = int(e.iso) if e.iso is not None else 0
    q = ion_value(e.ion) if e.ion is not None else 0
    if e.symbol in ALIASES:
        if iso:
            raise ValueError("isotope tag on the alias %s is not read by the reference" % e.symbol)
        sym, iso = ALIASES[e.symbol]
        return (sym, iso, q)
    return (e.symbol, iso, q)


def _add(total, key, n):
    total[key] = total.get(key, 0) + n


def _atoms(node, factor, total):
    """A count multiplies everything in its group; repeated atoms add."""
    if isinstance(node, Seq):
        for g in node.groups:
            _atoms(g, factor, total)
    elif isinstance(node, Implicit):
        f = factor * count_value(node.count)
        for e in node.elems:
            _add(total, atom_key(e), f * count_value(e.count))
    elif isinstance(node, Explicit):
        _atoms(node.body, factor * count_value(node.count), total)
    else:
        raise TypeError(node)


def denote(c):
    """Denotation of a Compound (or of a bare Seq)."""
    seq, dens = (c.seq, c.density) if isinstance(c, Compound) else (c, None)
    total = {}
    _atoms(seq, Fraction(1), total)
    charge = sum((n * k[2] for k, n in total.items()), Fraction(0))
    d = None if dens is None else (dens.tag or "i", count_value(dens.value))
    return Denotation(total, charge, d)


def den_key(d):
    """Hashable, order-free form of a Denotation."""
    return (tuple(sorted(d.atoms.items())), d.charge, d.density)


# -- binding to a table (attribute / item access only: the routes documented in core.py)
def table_symbols(table):
    """{symbol: (isotope numbers, charges)} of everything the table defines and the grammar can
    name (the neutron's symbol 'n' is not a `symbol` of the grammar)."""
    out = {}
    for el in table:
        if re.match(r"^[A-Z][a-z]*$", el.symbol):
            out[el.symbol] = (frozenset(el.isotopes), frozenset(el.ions))
    for alias, (sym, _) in ALIASES.items():
        out[alias] = (frozenset(), out[sym][1])
    return out


def make_atom_ok(table, liberal=False):
    """Predicate 'the table defines this symbol / isotope / charge' for the reference reader.
    liberal: additionally lets the unread case (isotope tag on D/T) through."""
    syms = table_symbols(table)

    def atom_ok(symbol, iso, charge):
        if symbol not in syms:
            return False
        isos, ions = syms[symbol]
        if iso:
            if symbol in ALIASES:
                return liberal
            if iso not in isos:
                return False
        return charge == 0 or charge in ions
    return atom_ok


def bind_atom(table, key):
    """The object of `table` named by an atom key."""
    sym, iso, q = key
    a = getattr(table, sym)
    if iso:
        a = a[iso]
    if q:
        a = a.ion[q]
    return a


def expected_density(den, table, electron_mass):
    """Numeric density the string asks for: None (no tag), the number (tag i), or for tag n the
    number divided by (mass with natural abundance / mass as written), isotopes replaced by their
    element, charges kept.  Ion masses are neutral mass less charge electron masses (core.py)."""
    if den.density is None:
        return None
    tag, value = den.density
    if tag == "i":
        return float(value)
    natural = written = 0.0
    for (sym, iso, q), n in den.atoms.items():
        el = getattr(table, sym)
        natural += float(n) * (el.mass - q * electron_mass)
        written += float(n) * ((el[iso] if iso else el).mass - q * electron_mass)
    return float(value) / (natural / written)


# ------------------------------------------------------------------------------------ 4. reader
_SYMBOL = re.compile(r"[A-Z][a-z]*")
_COUNT = re.compile(r"(?:(?:[1-9][0-9]*|0)?\.[0-9]*|[1-9][0-9]*)")
_ISO = re.compile(r"\[([1-9][0-9]*)\]")
_ION = re.compile(r"\{((?:[1-9][0-9]*)?[+-])\}")
#: the other token classes of the documented formula grammar (mixture productions) and of formulas.py, by
#: class: the documented unit names; the words of the percentage forms ('wt%', 'vol%' in the guide; the
#: other spellings are the ones formulas.py reads: w, wt, weight, m, mass, v, vol, volume); the two density
#: suffixes; the hydrogen aliases; the exponent letter of a number (not a token of the grammar: the guide's
#: counts have no exponent, but Python's float() reads one).  Only used to FORCE COLLISIONS with element
#: symbols in the enumerations of C01 (which symbols look like another token under some case folding) and
#: to name the cause of a violation; no oracle depends on it.
TOKEN_CLASSES = (
    ("unit", ("kg", "g", "mg", "ug", "ng", "L", "mL", "uL", "nL", "cm", "mm", "um", "nm")),
    ("percent-word", ("wt", "vol", "w", "weight", "m", "mass", "v", "volume")),
    ("density-suffix", ("n", "i")),
    ("hydrogen-alias", ("D", "T")),
    ("exponent-letter", ("e",)),
)
_UNIT_NAMES = "kg|g|mg|ug|ng|L|mL|uL|nL|cm|mm|um|nm"
# a quantity 'count unit part' at the start, after '(' or after '//'; the count is optional here as it is
# in `group` (the unchanged parser reads "LO" as one litre of O), and something that can start a part
# follows the unit: such strings are not judged
_UNIT = re.compile(r"(?:^|\(|//)\s*(?:(?:[1-9][0-9]*|0)?\.[0-9]*|[1-9][0-9]*)?\s*(?:%s)(?=\s*[A-Z(0-9.])"
                   % _UNIT_NAMES)


def collision_classes(symbol, extra_units=(), closest=False):
    """Token classes that `symbol` collides with under case folding: the folded symbol equals a token, is
    the beginning of one (W ~ wt, K ~ kg) or begins with one (Ga ~ g, Ni ~ n).  Sorted tuple of names.
    closest: only the classes with a token EQUAL to the folded symbol, if there is one (Mg: unit)."""
    s = symbol.lower()
    out, equal = set(), set()
    for name, words in TOKEN_CLASSES:
        if name == "unit":
            words = tuple(words) + tuple(extra_units)
        for w in words:
            w = w.lower()
            if s == w:
                equal.add(name)
            if s == w or w.startswith(s) or s.startswith(w):
                out.add(name)
    return tuple(sorted(equal if (closest and equal) else out))
_WS = " \t\r\n\f\v"


class _Reader(object):
    """All derivations of a string, by exhaustive backtracking (sentences are short).

    Every method returns a list of (end position, node)."""

    def __init__(self, s, atom_ok, liberal):
        self.s, self.atom_ok, self.liberal = s, atom_ok, liberal
        self._group = {}
        self._seq = {}

    def sp(self, i):
        """liberal only: skip a run of white space."""
        if self.liberal:
            s = self.s
            while i < len(s) and s[i] in _WS:
                i += 1
        return i

    def count(self, i):
        """[(end, spelling)] - at most one (maximal token)."""
        m = _COUNT.match(self.s, i)
        if not m:
            return []
        if m.group(0) == "." and not self.liberal:
            return []
        return [(m.end(), m.group(0))]

    def element(self, i):
        s = self.s
        m = _SYMBOL.match(s, i)
        if not m:
            return []
        sym, i = m.group(0), m.end()
        iso = ion = None
        m = _ISO.match(s, i)
        if m:
            iso, i = m.group(1), m.end()
        m = _ION.match(s, i)
        if m:
            ion, i = m.group(1), m.end()
        if self.atom_ok is not None and not self.atom_ok(
                sym, int(iso) if iso else 0, ion_value(ion) if ion else 0):
            return []
        out = [(i, Elem(sym, iso, ion, None))]
        for j, c in self.count(i):
            out.append((j, Elem(sym, iso, ion, c)))
        return out

    def elements(self, i):
        """element+ : every non-empty run starting at i."""
        out = []
        stack = [(i, ())]
        while stack:
            j, acc = stack.pop()
            for k, e in self.element(j):
                run = acc + (e,)
                out.append((k, run))
                stack.append((k, run))
        return out

    def group(self, i):
        if i in self._group:
            return self._group[i]
        s = self.s
        out = []
        starts = [(i, None)] + [(self.sp(j), c) for j, c in self.count(i)]
        for j, c in starts:
            for k, run in self.elements(j):
                out.append((k, Implicit(c, run)))
        if i < len(s) and s[i] == "(":
            bodies = list(self.seq(self.sp(i + 1)))
            if self.liberal:        # '(' formula ')': also a compound with density, or nothing
                bodies += [(e, c.seq) for e, c in self.compound(self.sp(i + 1))]
                bodies.append((self.sp(i + 1), Seq((), ())))
            for k, body in bodies:
                k = self.sp(k)
                if k < len(s) and s[k] == ")":
                    out.append((k + 1, Explicit(body, None)))
                    for m, c in self.count(self.sp(k + 1)):
                        out.append((m, Explicit(body, c)))
        self._group[i] = out
        return out

    def separators(self, i):
        """[(end, spelling)]"""
        s = self.s
        if self.liberal:
            j = self.sp(i)
            out = [(j, s[i:j])]
            if j < len(s) and s[j] == "+":
                k = self.sp(j + 1)
                out.append((k, s[i:k]))
            return out
        return [(i + len(sep), sep) for sep in SEPARATORS if s.startswith(sep, i)]

    def sep_ok(self, prev, sep, nxt):
        """The empty separator needs a parenthesis on one side and no leading count after it."""
        if sep != "" or self.liberal:
            return True
        if isinstance(nxt, Implicit) and nxt.count is not None:
            return False
        return isinstance(prev, Explicit) or isinstance(nxt, Explicit)

    def seq(self, i):
        if i in self._seq:
            return self._seq[i]
        out = []
        stack = [(j, (g,), ()) for j, g in self.group(i)]
        while stack:
            j, groups, seps = stack.pop()
            out.append((j, Seq(groups, seps)))
            for k, sep in self.separators(j):
                for m, g in self.group(k):
                    if self.sep_ok(groups[-1], sep, g):
                        stack.append((m, groups + (g,), seps + (sep,)))
        self._seq[i] = out
        return out

    def compound(self, i):
        s = self.s
        out = []
        for j, seq in self.seq(i):
            out.append((j, Compound(seq, None)))
            k = self.sp(j)
            if k < len(s) and s[k] == "@":
                cs = self.count(k + 1)
                if self.liberal and not cs:
                    cs = [(k + 1, "1")]          # "H2O@": accepted by the parser, not judged
                for m, c in cs:
                    out.append((m, Compound(seq, Density(c, ""))))
                    m2 = self.sp(m)
                    if m2 < len(s) and s[m2] in "ni":
                        out.append((m2 + 1, Compound(seq, Density(c, s[m2]))))
        return out


def readings(s, atom_ok=None):
    """All ASTs of `s` under the strict reading of the documented compound grammar.
    atom_ok(symbol, isotope, charge) restricts the atoms to those a table defines."""
    r = _Reader(s, atom_ok, liberal=False)
    return [c for end, c in r.compound(0) if end == len(s)]


def denotations(s, atom_ok=None):
    """{den_key: Denotation} over all strict readings of s."""
    out = {}
    for c in readings(s, atom_ok):
        d = denote(c)
        out.setdefault(den_key(d), d)
    return out


def derivable_liberal(s, atom_ok=None):
    """True if SOME liberal reading of the documentation derives s (over-approximation).

    Liberal = the strict reading plus: count optional also in the density tag, bare '.', empty
    separators everywhere, any run of white space as `space`, white space at both ends, after a
    leading count, around parentheses and their count, before '@' and before the n/i suffix,
    '(' formula ')' with a density inside or with nothing inside, and - wholesale - anything that
    looks like one of the mixture or biomolecule productions ('//', '%', ':', count + unit)."""
    if s.strip(_WS) == "" or "//" in s or "%" in s or ":" in s or _UNIT.search(s):
        return True
    r = _Reader(s, atom_ok, liberal=True)
    return any(r.sp(end) == len(s) for end, _ in r.compound(r.sp(0)))
