"""Reference model for C16 (D2O contrast matching) and shared scale helpers for C16 / C17.

Deliberately boring; shares no code with periodictable.nsf / formulas / fasta.  It only says
WHAT compound the "direct substitution" is:

* a compound is a list of (atom, count) pairs as written, plus EITHER a density (isotopic, '@d':
  the density of the compound exactly as written, or natural, '@dn': the density the compound would
  have with every isotope replaced by the natural element in the same cell) OR a cell volume
  (cubic Angstrom per formula unit, the biomolecule tables);
* substitution at D2O fraction d: every labile hydrogen (the isotope H[1]) becomes d deuterium and
  (1-d) natural hydrogen; nothing else changes; the cell volume does not change, so the density is
  the new mass over the old volume.

Atom masses and scattering lengths are read from the atom objects handed in (the library's tables:
their correctness is C06 / C07)."""


def mass(pairs):
    """Molar mass (u) of [(atom, count)]."""
    return sum(n * a.mass for a, n in pairs)


def natural_mass(pairs):
    """Molar mass (u) with every isotope replaced by its natural element."""
    return sum(n * getattr(a, "element", a).mass for a, n in pairs)


def written_density(pairs, kind, value):
    """Mass density (g/cm^3) of the compound exactly as written.
    kind 'iso': value is that density; kind 'nat': value is the density of the natural-abundance
    form in the same cell, so the written form weighs M_written / M_natural times as much."""
    if kind == "iso":
        return value
    if kind == "nat":
        return value * mass(pairs) / natural_mass(pairs)
    raise ValueError(kind)


def density_from_volume(pairs, cell_volume, avogadro):
    """g/cm^3 of one formula unit of mass M u in a cell of cell_volume cubic Angstrom (0 -> 0)."""
    if cell_volume == 0:
        return 0.0
    return mass(pairs) / avogadro / (cell_volume * 1e-24)


def substitute(pairs, labile, light, heavy, d):
    """[(atom, count)] with n labile atoms replaced by d*n heavy and (1-d)*n light atoms.
    Returns (dict atom -> count without zero entries, number of labile atoms replaced)."""
    out = {}
    n_labile = 0
    for a, n in pairs:
        if a is labile:
            n_labile += n
            for b, m in ((light, (1 - d) * n), (heavy, d * n)):
                if m != 0:
                    out[b] = out.get(b, 0) + m
        elif n != 0:
            out[a] = out.get(a, 0) + n
    return out, n_labile


def substituted_density(pairs, rho_written, atoms_subst):
    """Unchanged cell volume: density scales with the mass of the formula unit."""
    m0 = mass(pairs)
    if m0 == 0:
        return rho_written
    return rho_written * mass(list(atoms_subst.items())) / m0


def re_scale(atom_counts, rho, avogadro, b_re):
    """Sum of the MAGNITUDES of the terms of the real SLD (1e-6/A^2) of {atom: count} at density rho:
    (10 / V) * sum n_k |Re b_k| with V = (M / rho) / N_A * 1e24.  b_re(atom) -> Re b_c in fm.
    Used only as the scale of a tolerance (DESIGN section 3: signed sums)."""
    items = list(atom_counts.items())
    m = mass(items)
    if m == 0 or rho == 0:
        return 0.0
    per_volume = rho * avogadro * 1e-24 / m          # formula units per cubic Angstrom
    return 10 * per_volume * sum(abs(n) * abs(b_re(a)) for a, n in items)
