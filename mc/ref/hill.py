"""Reference for C19 (Hill form).  Works on atom *descriptors*, never on library objects:

    (element symbol, mass number or 0 for the natural element, charge, own)

`own` is True for D and T (hydrogen-2 and hydrogen-3 in every spelling: D, H[2], D{+}, H[2]{+}, T,
H[3], T{+}): isotopes of hydrogen that are written with a symbol of their own.

The statement orders: carbon first, hydrogen second, every other atom alphabetically by symbol,
isotopes of one element by mass number.  "By symbol" is taken literally: the symbol of an atom is
what it is written with (`written(d)`), so D and T are neither carbon (symbol C) nor hydrogen
(symbol H) but "other atoms", placed alphabetically under 'D' and 'T':

    C... , H... , then  B < Ca < Cl < D < Dy < He < O < T < Ta < U

(the unchanged library agrees: `CH3D`, `HDO`, `CaD2`, `OT2`, `H{+}D{+}O{2-}` are their own Hill
forms).  `must_precede(x, y)` returns the name of the rule that forces x to be listed before y, or
None where the statement leaves the pair unordered:
  * different charge states of one nuclide (Fe{2+} / Fe{3+}, C / C{4+}, Cl / Cl{-}, D / D{+}),
  * the natural element against one of its isotopes (O / O[16], H / H[1]) - "by mass number" orders
    the isotopes among themselves, the natural element has no mass number.
For unordered pairs only canonicity is required (checked by the caller).

Rules that involve D or T have names of their own, because a reader who takes D for hydrogen-2
("hydrogen second, isotopes by mass number": C, H, D, T, rest) would agree with two of them and
not with the third:
    carbon-and-hydrogen-before-D-T    C*, H* before D*, T*          (both readings)
    D-before-T                        D* before T*                  (both readings)
    D-T-alphabetical-by-own-symbol    B, Ca, Cl < D < Dy, He, ... < T < Ta, U   (symbol reading)
The third is therefore NOT judged: a D/T atom and an atom with another symbol form an unordered pair."""


def written(d):
    """The symbol the atom is written with."""
    if d[3]:
        if d[0] != "H" or d[1] not in (2, 3):
            raise ValueError("own symbol for %r" % (d,))
        return "D" if d[1] == 2 else "T"
    return d[0]


def group(d):
    w = written(d)
    return 0 if w == "C" else 1 if w == "H" else 2


def must_precede(x, y):
    gx, gy = group(x), group(y)
    wx, wy = written(x), written(y)
    if gx != gy:
        if gx < gy:
            if y[3]:
                return "carbon-and-hydrogen-before-D-T"
            return "carbon-first" if gx == 0 else "hydrogen-second"
        return None
    if wx != wy:
        if not wx < wy:
            return None
        if x[3] and y[3]:
            return "D-before-T"
        if x[3] or y[3]:
            # D / T against another symbol: "alphabetically by symbol" files them under 'D' / 'T', the reading
            # "D is hydrogen-2" files them right after H.  The statement does not decide, so the pair is
            # unordered (canonicity only); C and H before D and T, and D before T, hold under both readings.
            return None
        return "alphabetical-by-symbol"
    if x[1] and y[1] and x[1] != y[1]:
        return "isotopes-by-mass-number" if x[1] < y[1] else None
    return None


def order_violation(seq):
    """seq: descriptors in listed order.  Returns (rule, earlier-listed, later-listed) for the first
    pair that is listed against a rule of the statement, else None."""
    for j in range(len(seq)):
        for i in range(j):
            rule = must_precede(seq[j], seq[i])
            if rule:
                return rule, seq[i], seq[j]
    return None


def pair_class(x, y):
    """Why two different atoms may legitimately / illegitimately swap: class of the pair."""
    if x[0] == y[0] and x[1] == y[1] and x[2] != y[2]:
        return "charge-states-of-one-nuclide"
    if x[3] or y[3]:
        return "D-T-placement"
    if x[0] == y[0] and (x[1] == 0) != (y[1] == 0):
        return "natural-vs-isotope"
    if x[0] == y[0]:
        return "isotopes-of-one-element"
    return "pair-ordered-by-the-statement"


def merged(entries):
    """[(key, count)] -> {key: total count}, keys in order of first occurrence."""
    out = {}
    for k, c in entries:
        out[k] = out.get(k, 0) + c
    return out


def groupings(seq, mults=(1, 2), depth=8, top=True):
    """Every grouping of the sequence of entries `seq` = [(item, count), ...] that denotes the same
    totals: the sequence is cut into contiguous blocks; a block of one entry is the entry, a block
    of >= 2 entries is a bracketed group with multiplier m in `mults` whose entry counts are divided
    by m and whose content is grouped recursively (a group is never just one inner group).
    Yields trees: lists of [count, item] / [m, subtree]."""
    n = len(seq)
    for cuts in range((1 << (n - 1)) - 1, -1, -1):       # all cuts first: the flat spelling
        blocks, start = [], 0
        for i in range(1, n):
            if cuts >> (i - 1) & 1:
                blocks.append(seq[start:i]); start = i
        blocks.append(seq[start:])
        if not top and len(blocks) == 1 and n > 1:
            continue                      # ((...)) adds nothing
        if depth <= 0 and any(len(b) > 1 for b in blocks):
            continue
        options = []
        for b in blocks:
            if len(b) == 1:
                options.append([[b[0][1], b[0][0]]])
            else:
                opts = []
                for m in mults:
                    inner = [(it, c / m) for it, c in b]
                    for sub in groupings(inner, mults, depth - 1, top=False):
                        opts.append([m, sub])
                options.append(opts)
        for combo in _product(options):
            yield list(combo)


def _product(options):
    if not options:
        yield ()
        return
    for head in options[0]:
        for rest in _product(options[1:]):
            yield (head,) + rest


def count_text(c):
    """The count as the grammar writes it (digits, optionally '.' and digits - no exponent), denoting exactly
    the float c: the shortest decimal that reads back as c (repr), written out plainly when repr uses an
    exponent.  Counts that need all 17 significant digits come back from the parser bit for bit."""
    if c == 1:
        return ""
    if c == int(c) and abs(c) < 1e22:
        return "%d" % int(c)
    s = repr(float(c))
    if "e" in s or "E" in s:
        from decimal import Decimal
        s = format(Decimal(s), "f")
    if float(s) != c or not s.replace(".", "", 1).isdigit():
        raise ValueError("count %r has no plain decimal form" % (c,))
    return s


def text(tree, token):
    """Print a grouping tree as a formula string without separators; token(item) -> atom text."""
    out = []
    for c, x in tree:
        if isinstance(x, list):
            out.append("(" + text(x, token) + ")" + count_text(c))
        else:
            out.append(token(x) + count_text(c))
    return "".join(out)


# ------------------------------------------------------------------ independent counting, nested groups
from fractions import Fraction


def totals(tree, scale=Fraction(1), out=None):
    """The check's own atom counter: {item: Fraction} for a tree of [count, item] / [multiplier, subtree].
    The total of an item is the sum over its leaves of (leaf count x the multipliers of ALL enclosing
    groups), in exact rational arithmetic (Fraction(float) is exact).  Order of first occurrence."""
    if out is None:
        out = {}
    for c, x in tree:
        if isinstance(x, (list, tuple)):
            totals(x, scale * Fraction(c), out)
        else:
            out[x] = out.get(x, Fraction(0)) + scale * Fraction(c)
    return out


def exact_float(q):
    """float(q) for a Fraction that is a float (the alphabets are chosen so that every total is)."""
    x = float(q)
    if Fraction(x) != q:
        raise ValueError("%r is not a binary floating-point number" % (q,))
    return x


def depth(tree):
    d = 0
    for c, x in tree:
        if isinstance(x, (list, tuple)):
            d = max(d, 1 + depth(x))
    return d


def nestings(seq, mults=(1, 2, 3, 0.5), depth=2, singletons=True):
    """Every bracketing of the leaves `seq` = [(item, count), ...] (kept in this order, counts kept as
    they are - the totals are whatever the multipliers make of them): a forest is a sequence of nodes, a
    node is a leaf [count, item] or a group [m, forest] with m in `mults`; groups are nested at most
    `depth` deep.  With singletons a group may hold a single leaf, `(X2)3`, or nothing but another group,
    `((...)3)2`; without, every group holds at least two nodes (the trees that n*(f + g) can build).
    Yields trees (sub-trees are shared between
    the yielded trees: do not alter them)."""
    memo = {}
    seq = list(seq)

    def forests(i, j, d, inner):
        # forests over seq[i:j] with groups nested <= d deep; inner: the forest is the content of a group
        key = (i, j, d, inner)
        if key not in memo:
            memo[key] = list(_forests(i, j, d, inner))
        return memo[key]

    def nodes(i, j, d):
        if j - i == 1:
            yield [seq[i][1], seq[i][0]]
        if d > 0:
            for m in mults:
                for sub in forests(i, j, d - 1, True):
                    yield [m, sub]

    def _forests(i, j, d, inner):
        for cut in range(i + 1, j + 1):
            for head in nodes(i, cut, d):
                if cut == j:
                    if singletons or not inner:
                        yield [head]
                else:
                    for rest in forests(cut, j, d, False):
                        yield [head] + rest

    return _top(seq, nodes, depth)


def _top(seq, nodes, d):
    # the top level is generated lazily (it is the large one), everything below it is memoised
    n = len(seq)

    def walk(i):
        for cut in range(i + 1, n + 1):
            for head in nodes(i, cut, d):
                if cut == n:
                    yield [head]
                else:
                    for rest in walk(cut):
                        yield [head] + rest
    return walk(0)


# ------------------------------------------------------------------ counts that need every digit of a float
def slots(tree):
    """Number of count positions of a tree: every leaf count and every group multiplier."""
    return sum(1 + (slots(x) if isinstance(x, (list, tuple)) else 0) for c, x in tree)


def filled(tree, values, start=0):
    """(copy of the tree whose count positions, in reading order, hold values[start:], next index)."""
    out, k = [], start
    for c, x in tree:
        v = values[k]
        k += 1
        if isinstance(x, (list, tuple)):
            sub, k = filled(x, values, k)
            out.append([v, sub])
        else:
            out.append([v, x])
    return out, k


def counts_of(tree):
    """The counts at the positions of a tree, in the reading order of `filled`."""
    out = []
    for c, x in tree:
        out.append(c)
        if isinstance(x, (list, tuple)):
            out.extend(counts_of(x))
    return out


def placements(shape, values):
    """Every way the framework puts the `values` into a tree `shape` (its own counts are the baseline):
    each value at each position with the baseline everywhere else, then every position at once - position k
    holds values[(k + r) % len(values)] for every rotation r."""
    base = counts_of(shape)
    n = len(base)
    for k in range(n):
        for v in values:
            yield filled(shape, base[:k] + [v] + base[k + 1:])[0]
    for r in range(len(values)):
        yield filled(shape, [values[(k + r) % len(values)] for k in range(n)])[0]


def cross(shape, values):
    """Every assignment of `values` to the positions of the shape (all positions at once)."""
    n = slots(shape)
    for combo in _product([list(values)] * n):
        yield filled(shape, list(combo))[0]


def power_of_two(c):
    q = Fraction(c)
    return q > 0 and (q.numerator == 1 or q.denominator == 1) and \
        (q.numerator & (q.numerator - 1)) == 0 and (q.denominator & (q.denominator - 1)) == 0


def terms(tree, factors=(), out=None):
    """{item: [number of leaves, largest number of factors of one leaf that are not powers of two]}: how the
    total of an item comes about.  One leaf whose product has at most two such factors is ONE correctly
    rounded multiplication in whatever order it is carried out (powers of two only move the exponent), so its
    float value is determined; everything else (a sum of leaves, a product of three or more inexact factors)
    is determined up to the rounding of the single operations."""
    if out is None:
        out = {}
    for c, x in tree:
        if isinstance(x, (list, tuple)):
            terms(x, factors + (c,), out)
        else:
            rec = out.setdefault(x, [0, 0])
            rec[0] += 1
            rec[1] = max(rec[1], sum(1 for f in factors + (c,) if not power_of_two(f)))
    return out
