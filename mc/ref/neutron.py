"""Reference model for the neutron calculator (C03, C04).

The equations of the `neutron_scattering` docstring, written out with plain Python floats on values that
come from the independent table readers in `ref.tables` (scattering lengths, cross sections, masses,
abundances, densities) and the physical constants of `periodictable.constants` (documented source of
truth).  Shares no code with periodictable.nsf: own unit conversions, own end-clamped linear
interpolation, own composition sums.

An atom is named by the key (symbol, A, charge) with A == 0 for the natural element; 'D' and 'T' are
spelled ('H', 2, q) and ('H', 3, q).

Besides the seven outputs every evaluation returns the *magnitude scales* needed for a well conditioned
comparison (DESIGN section 3): a signed sum is compared relative to the sum of the magnitudes of its
terms, a clipped difference through the difference itself with an absolute tolerance."""
import math
from . import tables as rt
from ..common import MachineryError, load_pt

ABS_WL = 1.798           # wavelength at which sigma_a is tabulated (docstring: lambda = 1.798 A)
FOUR_PI_100 = 4.0 * math.pi / 100.0
OUTPUTS = ("rho_re", "rho_im", "rho_inc", "xs_coh", "xs_abs", "xs_inc", "penetration")


# ------------------------------------------------------------------ unit conversions (docstrings of
# neutron_wavelength / neutron_energy / neutron_wavelength_from_velocity: E = h^2/(2 m_n lambda^2),
# lambda = h/(m_n v), h in J s, m_n in kg) evaluated in SI and converted at the end.
def _si():
    load_pt()
    from periodictable import constants as c
    h = c.plancks_constant * c.electron_volt            # J s
    m = c.neutron_mass * c.atomic_mass_constant         # kg
    return h, m, c.electron_volt


def energy_of_wavelength(wl):
    """meV for a wavelength in Angstrom."""
    h, m, ev = _si()
    lam = wl * 1e-10                                     # m
    joule = h * h / (2.0 * m * lam * lam)
    return joule / ev * 1000.0


def wavelength_of_energy(e_mev):
    """Angstrom for an energy in meV."""
    h, m, ev = _si()
    joule = e_mev / 1000.0 * ev
    return math.sqrt(h * h / (2.0 * m * joule)) * 1e10


def wavelength_of_velocity(v):
    """Angstrom for a velocity in m/s."""
    h, m, ev = _si()
    return h / (m * v) * 1e10


def kinetic_energy_mev(v):
    """E = 1/2 m_n v^2 in meV."""
    h, m, ev = _si()
    return 0.5 * m * v * v / ev * 1000.0


# ------------------------------------------------------------------ interpolation
def interp_clamped(x, xs, ys):
    """Linear interpolation of (xs ascending, ys) at x with the end values outside the range.
    Returns (value, magnitude) where magnitude = larger |y| of the bracketing nodes (the size of the
    terms of the interpolation sum; a zero crossing between two nodes must not shrink the scale)."""
    n = len(xs)
    if x <= xs[0]:
        return ys[0], abs(ys[0])
    if x >= xs[n - 1]:
        return ys[n - 1], abs(ys[n - 1])
    lo, hi = 0, n - 1                  # invariant xs[lo] < x < xs[hi] or equal at lo
    while hi - lo > 1:
        mid = (lo + hi) // 2
        if xs[mid] <= x:
            lo = mid
        else:
            hi = mid
    t = (x - xs[lo]) / (xs[hi] - xs[lo])
    return ys[lo] + t * (ys[hi] - ys[lo]), max(abs(ys[lo]), abs(ys[hi]))


# ------------------------------------------------------------------ data
class NeutronData(object):
    """Everything the equations need, from the independent readers."""

    def __init__(self):
        load_pt()
        from periodictable import constants as c
        self.NA = c.avogadro_number
        self.me = c.electron_mass
        self.rows = {}
        self.sym_of_z = {}
        self.z_of_sym = {}
        by_z = {}
        for r in rt.neutron_rows():
            self.rows[(r["Z"], r["A"])] = r
            self.sym_of_z[r["Z"]] = r["symbol"]
            by_z.setdefault(r["Z"], []).append(r)
        self.by_z = by_z
        self.iso_mass = rt.isotope_masses()
        for (z, a), (sym, m, u) in self.iso_mass.items():
            self.sym_of_z.setdefault(z, sym)
        self.el_mass = dict((z, v[1]) for z, v in rt.element_masses().items())
        for z, v in rt.element_masses().items():
            self.sym_of_z.setdefault(z, v[0])
        for z, v in rt.isotope_table_element_masses().items():
            if z not in self.el_mass and v[0] is not None:
                self.el_mass[z] = v[0]
        self.z_of_sym = dict((s, z) for z, s in self.sym_of_z.items())
        self.dens = rt.element_densities()
        self.abund = rt.isotope_abundances()
        # energy tables -> wavelength ascending node lists
        self.tables = {}
        for (sym, a), nodes in rt.energy_tables().items():
            pts = sorted((wavelength_of_energy(e * 1000.0), re_, im_) for (e, re_, im_, ab_) in nodes)
            wl = [p[0] for p in pts]
            if any(wl[i] >= wl[i + 1] for i in range(len(wl) - 1)):
                raise MachineryError("energy table %s-%s has repeated energies" % (sym, a))
            self.tables[(sym, a or 0)] = (wl, [p[1] for p in pts], [p[2] for p in pts])
        self._cell_cache = {}
        self._has = {}

    # ---- a private table whose masses / densities the caller customised before attaching the neutron data
    def customised(self, el_mass=None, iso_mass=None, density=None, divide_all_by=None):
        """A copy of the data with other masses (symbol -> value, (symbol, A) -> value) and element densities
        (symbol -> value); divide_all_by = s: every element mass, isotope mass and element density divided by s
        (the loop of the customisation guide).  The scattering lengths, cross sections and abundances are those of
        the tables; the receiver is not changed."""
        import copy
        d = copy.copy(self)
        d.el_mass = dict(self.el_mass)
        d.iso_mass = dict(self.iso_mass)
        d.dens = dict(self.dens)
        d._cell_cache = {}
        d._has = {}
        if divide_all_by is not None:
            s = divide_all_by
            for z in d.el_mass:
                d.el_mass[z] = d.el_mass[z] / s
            for k, (sym, m, u) in list(d.iso_mass.items()):
                d.iso_mass[k] = (sym, m / s, u)
            for sym in d.dens:
                if d.dens[sym] is not None:
                    d.dens[sym] = d.dens[sym] / s
        for sym, m in (el_mass or {}).items():
            d.el_mass[self.z_of_sym[sym]] = m
        for (sym, a), m in (iso_mass or {}).items():
            k = (self.z_of_sym[sym], a)
            d.iso_mass[k] = (d.iso_mass[k][0], m, d.iso_mass[k][2])
        for sym, rho in (density or {}).items():
            d.dens[sym] = rho
        return d

    # ---- which record describes an atom
    def record(self, sym, a):
        """Row of the neutron table for element (a == 0) or isotope; None = no row; 'unjudged' for an
        element that has several isotope rows and no element row (Pu, Cm)."""
        z = self.z_of_sym.get(sym)
        r = self.rows.get((z, a))
        if r is not None or a != 0:
            return r
        rs = self.by_z.get(z, [])
        if len(rs) == 1:
            return rs[0]              # single-isotope element reports its isotope's record
        if len(rs) > 1:
            return "unjudged"
        return None

    def has_table(self, sym, a):
        return (sym, a) in self.tables or (sym, a) == ("Lu", 0)

    def has_data(self, key):
        """True / False / None (not judged: Pu, Cm elements; data without density: Ra, n)."""
        if key in self._has:
            return self._has[key]
        v = self._has[key] = self._has_data(key)
        return v

    def _has_data(self, key):
        sym, a, q = key
        r = self.record(sym, a)
        if r == "unjudged":
            return None
        if r is None:
            return False
        b_c = r["b_c"]
        if (sym, a) == ("Eu", 151) and b_c is None:
            b_c = math.sqrt(r["coherent"] / FOUR_PI_100)     # documented gap fill
        if b_c is None:
            return False
        if self.dens.get(sym) is None:
            return None
        return True

    # ---- mass and density
    def mass(self, key):
        sym, a, q = key
        z = self.z_of_sym[sym]
        m = self.el_mass[z] if a == 0 else self.iso_mass[(z, a)][1]
        return m - q * self.me

    def natural_mass(self, key):
        """mass of the atom with its isotope replaced by the element in natural abundance; the charge stays
        (docstring of natural_density: "naturally occurring isotopes and no change in cell volume" - the electrons
        that an ion lacks or carries do not depend on the isotope): natural element mass - charge * electron mass."""
        sym, a, q = key
        return self.el_mass[self.z_of_sym[sym]] - q * self.me

    def atom_density(self, key):
        """element density; isotope: same number density as the natural element."""
        sym, a, q = key
        rho = self.dens.get(sym)
        if rho is None:
            return None
        if a == 0:
            return rho
        return rho * (self.mass((sym, a, 0)) / self.mass((sym, 0, 0)))

    def element_number_density(self, sym):
        """atoms per A^3 of the natural element."""
        return self.dens[sym] / self.mass((sym, 0, 0)) * self.NA * 1e-24

    # ---- per-atom scattering at one wavelength
    def lu_abundances(self, variant):
        if variant == "mass":
            blk = self.abund[71]
            tot = sum(v[0] for v in blk.values())
            return 100.0 * blk[175][0] / tot, 100.0 * blk[176][0] / tot
        return self.rows[(71, 175)]["abundance"], self.rows[(71, 176)]["abundance"]

    def atom_scattering(self, key, wl, lu="mass"):
        """(re, im, sigma_s, mag_re, mag_im, mag_sigma) in fm, fm, barn."""
        sym, a, q = key
        if (sym, a) in self.tables:
            xs, res, ims = self.tables[(sym, a)]
            re_, mre = interp_clamped(wl, xs, res)
            im_, mim = interp_clamped(wl, xs, ims)
            return (re_, im_, FOUR_PI_100 * (re_ * re_ + im_ * im_), mre, mim,
                    FOUR_PI_100 * (mre * mre + mim * mim))
        if (sym, a) == ("Lu", 0):
            a175, a176 = self.lu_abundances(lu)
            r175 = self.rows[(71, 175)]
            re175, im175 = r175["b_c"], -r175["absorption"] / (2000.0 * ABS_WL)
            xs, res, ims = self.tables[("Lu", 176)]
            re176, mre = interp_clamped(wl, xs, res)
            im176, mim = interp_clamped(wl, xs, ims)
            re_ = (re175 * a175 + re176 * a176) / 100.0
            im_ = (im175 * a175 + im176 * a176) / 100.0
            mre = (abs(re175) * a175 + mre * a176) / 100.0
            mim = (abs(im175) * a175 + mim * a176) / 100.0
            return (re_, im_, FOUR_PI_100 * (re_ * re_ + im_ * im_), mre, mim,
                    FOUR_PI_100 * (mre * mre + mim * mim))
        r = self.record(sym, a)
        re_ = r["b_c"]
        im_ = -r["absorption"] / (2000.0 * ABS_WL)
        tot = r["total"]
        if tot is None and (sym, a) == ("Xe", 0):
            tot = r["coherent"] + r["incoherent"]             # documented gap fill
        return re_, im_, tot, abs(re_), abs(im_), abs(tot)

    # ---- the docstring equations
    def compound_density(self, frags, spec):
        """spec = ('density', d) | ('natural', d) | ('atom',) for a one-atom compound at its own density."""
        kind = spec[0]
        if kind == "density":
            return spec[1]
        if kind == "natural":
            m_iso = sum(c * self.mass(k) for c, k in frags)
            m_nat = sum(c * self.natural_mass(k) for c, k in frags)
            return spec[1] * m_iso / m_nat
        if kind == "atom":
            keys = set(k for c, k in frags)
            if len(keys) != 1:
                raise MachineryError("atom density of a compound")
            return self.atom_density(list(keys)[0])
        raise MachineryError("density spec %r" % (spec,))

    def cell(self, frags, wl, lu="mass"):
        """Density independent part: count-weighted averages over the formula unit and their magnitude
        scales.  Memoised (pure function of its arguments); call clear_cache() to bound the memory."""
        ck = (tuple(frags), wl, lu)
        hit = self._cell_cache.get(ck)
        if hit is not None:
            return hit
        n = 0.0
        molar = 0.0
        sre = sim = ssig = 0.0
        mre = mim = msig = 0.0
        for c, k in frags:
            re_, im_, sig, a_re, a_im, a_sig = self.atom_scattering(k, wl, lu)
            n += c
            molar += c * self.mass(k)
            sre += c * re_
            sim += c * im_
            ssig += c * sig
            mre += abs(c) * a_re
            mim += abs(c) * a_im
            msig += abs(c) * a_sig
        out = (n, molar, sre / n, sim / n, ssig / n, mre / n, mim / n, msig / n)
        self._cell_cache[ck] = out
        return out

    def clear_cache(self):
        self._cell_cache.clear()

    def evaluate(self, frags, density, wl, lu="mass", number_density=None):
        """frags: [(count, key), ...] (an atom may repeat); density g/cm^3; wl Angstrom.
        Returns a dict with the seven outputs and the comparison scales, or None if an atom has no data."""
        for c, k in frags:
            if self.has_data(k) is not True:
                return None
        n, molar, b_re, b_im, sigma_s, S_re, S_im, S_sig = self.cell(frags, wl, lu)
        if number_density is None:
            volume = molar / density / self.NA * 1e24           # A^3 per formula unit
            N = n / volume
        else:
            N = number_density
        sigma_c = FOUR_PI_100 * (b_re * b_re + b_im * b_im)
        sigma_i = max(sigma_s - sigma_c, 0.0)
        b_i = math.sqrt(sigma_i / FOUR_PI_100)
        sigma_a = -1000.0 * 4.0 * math.pi * b_im / (2.0 * math.pi / wl)
        denom = N * sigma_s + N * sigma_a
        out = dict(
            rho_re=10.0 * N * b_re, rho_im=-10.0 * N * b_im, rho_inc=10.0 * N * b_i,
            xs_coh=N * sigma_c, xs_abs=N * sigma_a, xs_inc=N * sigma_i,
            penetration=(1.0 / denom if denom != 0 else math.inf),
            # intermediate values and scales
            N=N, sigma_i=sigma_i, sigma_s=sigma_s, sigma_c=sigma_c,
            S_re=S_re, S_im=S_im, S_sig=S_sig,
            S_sigc=FOUR_PI_100 * (S_re * S_re + S_im * S_im),
            S_siga=2000.0 * S_im * wl)
        return out


# ------------------------------------------------------------------ comparison (well conditioned)
def flatten(result):
    """library result ((re, im, inc), (coh, abs, inc), pen) -> dict by output name."""
    (a, b, c), (d, e, f), g = result
    return dict(rho_re=a, rho_im=b, rho_inc=c, xs_coh=d, xs_abs=e, xs_inc=f, penetration=g)


def _isbad(x):
    return x is None or isinstance(x, complex) or math.isnan(x)


def compare(ref, got, rel=1e-9, rel_sigma=1e-11, fa=1.0, fb=1.0):
    """Names of the outputs in which `got` (dict of floats) disagrees with `ref`.

    `ref` carries the scales (a result of NeutronData.evaluate) - when two library results are compared
    (C04) `ref` is the independent evaluation of the same state and `got` is a pair (A, B) of flattened
    library results with the expected factors: A * fa == B for SLDs and cross sections,
    A / fa == B for the penetration depth (fb is the factor applied to the number density scale of B).

    rho_re: relative to 10 N sum|c_i Re b_i|/n.  rho_im, xs_abs, penetration: sums of terms of one sign
    (for table atoms: of the magnitudes of the bracketing nodes).  xs_coh: relative to the coherent
    cross section of the magnitudes.  Incoherent quantities: through sigma_i with the absolute
    tolerance rel_sigma * (sigma_s + sigma_c scales)."""
    bad = []
    if isinstance(got, tuple):
        A, B = got
        exp = dict((k, (A[k] * fa if k != "penetration" else A[k] / fa)) for k in OUTPUTS)
        obs = B
        N = ref["N"] * fb
    else:
        exp = ref
        obs = got
        N = ref["N"]
    for k in OUTPUTS:
        if _isbad(obs[k]) or _isbad(exp[k]):
            bad.append(k)
    if bad:
        return bad
    tiny = 1e-300

    def chk(name, scale):
        e, o = exp[name], obs[name]
        if abs(e - o) > rel * max(abs(e), abs(o), scale) + tiny:
            bad.append(name)

    chk("rho_re", 10.0 * N * ref["S_re"])
    chk("rho_im", 10.0 * N * ref["S_im"])
    chk("xs_coh", N * ref["S_sigc"])
    chk("xs_abs", N * ref["S_siga"])
    # incoherent: compare sigma_i
    abs_sig = rel_sigma * (ref["S_sig"] + ref["S_sigc"])
    e, o = exp["xs_inc"], obs["xs_inc"]
    if abs(e - o) > rel * max(abs(e), abs(o)) + N * abs_sig + tiny:
        bad.append("xs_inc")
    se = (exp["rho_inc"] / (10.0 * N)) ** 2 * FOUR_PI_100
    so = (obs["rho_inc"] / (10.0 * N)) ** 2 * FOUR_PI_100
    if (exp["rho_inc"] < 0) != (obs["rho_inc"] < 0) and max(se, so) > abs_sig:
        bad.append("rho_inc")
    elif abs(se - so) > 2 * rel * max(se, so) + abs_sig + tiny:
        bad.append("rho_inc")
    # penetration: 1/(N (sigma_s + sigma_a)); the sum has terms of one sign
    e, o = exp["penetration"], obs["penetration"]
    if math.isinf(e) or math.isinf(o):
        if e != o:
            bad.append("penetration")
    else:
        # compare the reciprocals' scale: |1/e - 1/o| relative to N (S_sig + S_siga)
        scale_den = N * (ref["S_sig"] + ref["S_siga"])
        if e <= 0 or o <= 0:
            if abs(e - o) > rel * max(abs(e), abs(o)) + tiny:
                bad.append("penetration")
        elif abs(e - o) > rel * max(e, o) * max(1.0, scale_den * max(e, o)) + tiny:
            bad.append("penetration")
    order = dict((k, i) for i, k in enumerate(OUTPUTS))
    bad.sort(key=lambda k: order[k])
    return bad
