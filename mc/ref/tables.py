"""Independent readers for the tables embedded in periodictable.

Two layers:
* live_<table>(): text readers.  Each works on the TEXT of the table in the tree under test (module string
  attribute, data file, or - for Python literals - the source file through `ast`), shares no code with the
  library's own parsers and returns plain Python values.  Duplicated keys are reported, never resolved silently.
  They depend on the representation of the table in the source (a list literal that becomes a dict makes them
  raise), and they follow the text (a row lost in the source is lost in the reading).
* <table>(): what the checks use - reference(): per table the text of the tree under test (live reader) while it
  is readable and holds at least 90 % of the rows of the PINNED COPY mc/ref/pinned_tables.json (made once with the
  text readers from the unchanged tree, see the second half of this file), otherwise the pinned copy.  A deliberate
  update of the data moves the reference with it ("the embedded table" is what the tree carries); a source whose
  layout changes can neither stop the check nor take rows away unnoticed."""
import os, re, ast, math
from decimal import Decimal
from ..common import REPO, MachineryError

PKG = os.path.join(REPO, "periodictable")


def _lib(name):
    """periodictable.<name> of the tree under test (the text readers only; the pinned readers never import it)."""
    import importlib
    from ..common import load_pt
    load_pt()
    return importlib.import_module("periodictable." + name)


# ---------------------------------------------------------------- numbers with uncertainty
_VU = re.compile(r"^([+-]?[0-9]*\.?[0-9]*(?:[eE][+-]?[0-9]+)?)\(([0-9.]+)\)(#?)$")


def value_unc(text):
    """value(unc) | value | [nominal] | [low,high]  ->  (value, unc) as floats; '' -> (None, None).

    value(unc): the digits of unc are aligned with the last digits of value, unless unc carries its
    own decimal point.  [low,high]: midpoint, (high-low)/sqrt(12).  [nominal] and bare value: unc 0."""
    s = text.strip()
    if s == "":
        return None, None
    if s[0] == "[":
        if s[-1] != "]":
            raise MachineryError("bad bracket number %r" % text)
        parts = s[1:-1].split(",")
        if len(parts) == 2:
            lo, hi = float(parts[0]), float(parts[1])
            return (lo + hi) / 2.0, (hi - lo) / math.sqrt(12.0)
        if len(parts) == 1:
            return float(parts[0]), 0.0
        raise MachineryError("bad bracket number %r" % text)
    m = _VU.match(s)
    if m:
        val, unc = m.group(1), m.group(2)
        v = Decimal(val)
        if "." in unc or "." not in val or "e" in val.lower():
            u = Decimal(unc)
        else:
            ndec = len(val.split(".")[1])
            u = Decimal(unc).scaleb(-ndec)
        return float(v), float(u)
    return float(s), 0.0


# ---------------------------------------------------------------- mass tables
def _mass_module_text(name):
    m = _lib("mass")
    return getattr(m, name)


def live_isotope_masses():
    """{(Z, A): (symbol, mass, unc)} from mass.isotope_mass; line: Z-Sym-A,mass(unc)#?,abund,elmass."""
    out = {}
    for ln in _mass_module_text("isotope_mass").split("\n"):
        f = ln.split(",")
        if len(f) != 4:
            raise MachineryError("isotope_mass line %r" % ln)
        z, sym, a = f[0].split("-")
        key = (int(z), int(a))
        if key in out:
            raise MachineryError("duplicate isotope %r" % (key,))
        v, u = value_unc(f[1].rstrip("#") if f[1].endswith("#") else f[1])
        out[key] = (sym, v, u)
    return out


def live_isotope_table_element_masses():
    """{Z: (mass, unc)}: the element-mass column of isotope_mass (used for elements that the
    atomic-weight table does not list)."""
    out = {}
    for ln in _mass_module_text("isotope_mass").split("\n"):
        f = ln.split(",")
        z = int(f[0].split("-")[0])
        out[z] = value_unc(f[3])
    return out


def live_element_masses():
    """{Z: (symbol, mass, unc)} from mass.element_mass (abridged value, first number column)."""
    out = {}
    for ln in _mass_module_text("element_mass").split("\n"):
        f = ln.split()
        z, sym, name, val = f[0], f[1], f[2], f[3]
        if val == "-":
            continue
        v, u = value_unc(val)
        out[int(z)] = (sym, v, u)
    return out


def live_isotope_abundances():
    """{Z: {A: (fraction, unc)}} from mass.isotope_abundance (fractions as listed, not normalised)."""
    out = {}
    cur = None
    for ln in _mass_module_text("isotope_abundance").split("\n"):
        if not ln.strip():
            continue
        if ln[0] not in " \t":
            cur = int(ln.split()[0])
            if cur in out:
                raise MachineryError("duplicate element block %d" % cur)
            out[cur] = {}
        else:
            f = ln.split()
            a = int(f[0])
            if a in out[cur]:
                raise MachineryError("duplicate isotope %d-%d" % (cur, a))
            out[cur][a] = value_unc(f[1])
    return out


# ---------------------------------------------------------------- density (python literal in the source)
def _assigned_call_or_literal(path, name):
    tree = ast.parse(open(path, encoding="latin-1").read())
    for node in tree.body:
        if isinstance(node, ast.Assign) and any(isinstance(t, ast.Name) and t.id == name for t in node.targets):
            return node.value
    raise MachineryError("%s not found in %s" % (name, path))


def live_element_densities():
    """{symbol: density or None} read from density.py's source: element_densities = dict(Sym=value|(value, note)|None)."""
    node = _assigned_call_or_literal(os.path.join(PKG, "density.py"), "element_densities")
    out = {}
    if isinstance(node, ast.Call):
        items = [(kw.arg, kw.value) for kw in node.keywords]
    elif isinstance(node, ast.Dict):
        items = [(ast.literal_eval(k), v) for k, v in zip(node.keys, node.values)]
    else:
        raise MachineryError("unexpected form of element_densities")
    for k, v in items:
        val = ast.literal_eval(v)
        if isinstance(val, tuple):
            val = val[0]
        if k in out:
            raise MachineryError("duplicate density key %s" % k)
        out[k] = None if val is None else float(val)
    return out


# ---------------------------------------------------------------- neutron scattering table
def _strip_number(s):
    """'35.24(2)*' -> 35.24 ; '<1e-6' -> 1e-6 ; '' -> None (uncertainty dropped, limits and
    estimates read as the bare number, blank as missing)."""
    s = s.strip()
    if s == "":
        return None
    s = s.lstrip("<").rstrip("*")
    m = re.match(r"^([+-]?[0-9.]+(?:[eE][+-]?[0-9]+)?)(?:\([0-9.]+\))?$", s)
    if not m:
        raise MachineryError("unparsable neutron table number %r" % s)
    return float(m.group(1))


def live_neutron_rows():
    """List of dicts, one per row of nsf.nsftable, columns per the comment block above the table:
    Z-Symbol[-A], concentration/half-life, spin, b_c, bp, bm, c (E flag), coherent, incoherent,
    total, absorption."""
    nsf = _lib("nsf")
    rows = []
    seen = set()
    for ln in nsf.nsftable.split("\n"):
        f = ln.split(",")
        if len(f) != 11:
            raise MachineryError("neutron row with %d columns: %r" % (len(f), ln))
        ident = f[0].split("-")
        Z, sym = int(ident[0]), ident[1]
        A = int(ident[2]) if len(ident) == 3 else 0
        if (Z, A) in seen:
            raise MachineryError("duplicate neutron row %r" % f[0])
        seen.add((Z, A))
        conc = f[1].strip()
        halflife = bool(re.search(r"[A-Za-z]", conc))
        rows.append(dict(
            Z=Z, symbol=sym, A=A, line=ln,
            abundance=(0.0 if halflife else (_strip_number(conc) if conc else None)),
            is_halflife=halflife, spin=f[2],
            b_c=_strip_number(f[3]), bp=_strip_number(f[4]), bm=_strip_number(f[5]),
            E=(f[6].strip() == "E"),
            coherent=_strip_number(f[7]), incoherent=_strip_number(f[8]),
            total=_strip_number(f[9]), absorption=_strip_number(f[10])))
    return rows


def live_neutron_imag_rows():
    """{(Z, A): (b_c_i, bp_i, bm_i)} from nsf.nsftableI."""
    nsf = _lib("nsf")
    out = {}
    for ln in nsf.nsftableI.split("\n"):
        f = ln.split(",")
        ident = f[0].split("-")
        key = (int(ident[0]), int(ident[2]) if len(ident) == 3 else 0)
        if key in out:
            raise MachineryError("duplicate imaginary row %r" % f[0])
        out[key] = tuple(_strip_number(x) for x in f[1:4])
    return out


def live_energy_tables():
    """{(symbol, A or None): [(E_eV, re, im, abs), ...]} - nsf_tables.ENERGY_DEPENDENT_TABLES read as-is."""
    ENERGY_DEPENDENT_TABLES = _lib("nsf_tables").ENERGY_DEPENDENT_TABLES
    return dict((k, [tuple(float(x) for x in row) for row in v]) for k, v in ENERGY_DEPENDENT_TABLES.items())


# ---------------------------------------------------------------- covalent radii (Cordero)
def live_covalent_radii():
    """{Z: (symbol-label, radius, uncertainty)} from covalent_radius.Cordero.
    Columns (comment above the table): Z, Symbol, radius(A), uncertainty (0.01A), n measurements.
    Rows whose first field is '-' are alternate spin/hybridisation states of the previous element
    and are skipped (first state wins).  Missing uncertainty -> 0."""
    cr = _lib("covalent_radius")
    out = {}
    for ln in cr.Cordero.split("\n"):
        f = ln.split()
        if not f or f[0] == "-":
            continue
        Z = int(f[0])
        if Z in out:
            raise MachineryError("duplicate Cordero row %d" % Z)
        unc = float(f[3]) * 0.01 if len(f) > 3 else 0.0
        out[Z] = (f[1], float(f[2]), unc)
    return out


# ---------------------------------------------------------------- crystal structures (python literal + #Sym comments)
def live_crystal_structures():
    """List of (index, value, label) from the source of crystal_structure.py: the entries of the
    `crystal_structures` list literal with the trailing `#Sym` comment of each entry (the
    independent statement of which element the entry belongs to)."""
    import tokenize, io
    path = os.path.join(PKG, "crystal_structure.py")
    src = open(path, encoding="latin-1").read()
    node = _assigned_call_or_literal(path, "crystal_structures")
    if not isinstance(node, ast.List):
        raise MachineryError("crystal_structures is not a list literal")
    values = [(ast.literal_eval(e), e.end_lineno) for e in node.elts]
    comments = {}
    for tok in tokenize.generate_tokens(io.StringIO(src).readline):
        if tok.type == tokenize.COMMENT:
            comments[tok.start[0]] = tok.string.lstrip("#").strip()
    return [(i, v, comments.get(line)) for i, (v, line) in enumerate(values)]


# ---------------------------------------------------------------- emission lines
def live_spectral_lines():
    """{symbol: (K_alpha, K_beta1)} from xsf.spectral_lines_data (columns: element, K_alpha, K_beta1)."""
    xsf = _lib("xsf")
    out = {}
    for ln in xsf.spectral_lines_data.split("\n"):
        f = ln.split()
        if len(f) != 3:
            raise MachineryError("spectral line row %r" % ln)
        if f[0] in out:
            raise MachineryError("duplicate spectral line row %s" % f[0])
        out[f[0]] = (float(f[1]), float(f[2]))
    return out


# ---------------------------------------------------------------- magnetic form factors (CrysFML text)
_CFML = re.compile(
    r"Magnetic_(Form|j2|j4|j6)\(\s*\d+\)\s*=\s*Magnetic_Form_Type\(\"\s*([A-Za-z]+)(\d)\s*\"\s*,\s*&?\s*"
    r"\(/([^/]*)/\)\s*\)", re.S)


def live_magnetic_records():
    """List of (kind, symbol, charge, coefficients[7]) for every record of magnetic_ff.CFML_DATA.
    kind is 'j0' (Magnetic_Form with leading M), 'J' (leading J), 'j2', 'j4', 'j6'.  Own regex; no eval."""
    mff = _lib("magnetic_ff")
    out = []
    for m in _CFML.finditer(mff.CFML_DATA):
        arr, label, charge, body = m.group(1), m.group(2), int(m.group(3)), m.group(4)
        coeffs = tuple(float(x) for x in body.replace("&", " ").split(","))
        if len(coeffs) != 7:
            raise MachineryError("magnetic record with %d coefficients: %s%d" % (len(coeffs), label, charge))
        if arr == "Form":
            kind = {"M": "j0", "J": "J"}.get(label[0])
            if kind is None:
                raise MachineryError("Magnetic_Form label %r" % label)
            label = label[1:]
        else:
            kind = arr
        sym = label[0] + label[1:].lower()
        out.append((kind, sym, charge, coeffs))
    n_decl = len(re.findall(r"Magnetic_Form_Type\(\"", mff.CFML_DATA))
    if n_decl != len(out):
        raise MachineryError("magnetic reader matched %d of %d records" % (len(out), n_decl))
    return out


# =================================================================== the pinned reference copy
# The check modules do not take their expected values from the text of the tree under test: a change that loses a
# row while it re-keys a table, or that changes the layout of the source (list -> dict, other variable name, other
# file), would either take the reference along with it or make the text reader fail.  The expected values are a
# COPY of the embedded tables, made once with the text readers above (live_*) from the unchanged tree and committed
# as mc/ref/pinned_tables.json (see its "made_from" entry).  It is the fallback of reference() below.  After a deliberate
# update of the data in the library, regenerate the copy (not required for soundness: the tree's text is preferred):
#       cd /verif && VERIF_REPO=/repo /venv/bin/python -m mc.ref.tables --write-pinned
# live_differences() compares the text of the tree under test with the copy (used for a note in the run record; a
# text that the readers can no longer parse is reported there as 'unreadable', it is not an error of the check).
PINNED_FILE = os.path.join(os.path.dirname(os.path.abspath(__file__)), "pinned_tables.json")
_PINNED = None
TABLE_NAMES = ("isotope_mass", "element_mass", "isotope_abundance", "element_densities", "neutron_rows",
               "neutron_imag_rows", "energy_tables", "covalent_radii", "crystal_structures", "spectral_lines",
               "magnetic_records", "cromer_mann")
# number of rows of each table in the pinned copy (a truncated or hand-edited file is a machinery error)
PINNED_ROWS = dict(isotope_mass=2939, element_mass=84, isotope_abundance=84, element_densities=119, neutron_rows=364,
                   neutron_imag_rows=16, energy_tables=14, covalent_radii=96, crystal_structures=104, spectral_lines=91,
                   magnetic_records=344, cromer_mann=211)


def _plain(x):
    """tuples -> lists, recursively (what JSON will hand back)."""
    if isinstance(x, (list, tuple)):
        return [_plain(v) for v in x]
    if isinstance(x, dict):
        return dict((k, _plain(v)) for k, v in x.items())
    return x


def _live_isotope_mass_rows():
    iso = live_isotope_masses()
    elcol = {}
    for ln in _mass_module_text("isotope_mass").split("\n"):
        f = ln.split(",")
        z, _, a = f[0].split("-")
        elcol[(int(z), int(a))] = value_unc(f[3])
    return [[Z, A, sym, m, u] + list(elcol[(Z, A)]) for (Z, A), (sym, m, u) in iso.items()]


def _live_cromer_mann_rows():
    from . import xray as rx
    return [[e["Z"], e["symbol"], list(e["a"]), e["c"], list(e["b"])] for e in rx.f0_entries()]


# one maker per table: the rows of the table in the layout of the pinned copy, read from the TEXT of the tree under test
LIVE_MAKERS = dict(
    isotope_mass=_live_isotope_mass_rows,
    element_mass=lambda: [[Z, sym, m, u] for Z, (sym, m, u) in live_element_masses().items()],
    isotope_abundance=lambda: [[Z, [[A, v, u] for A, (v, u) in block.items()]] for Z, block in live_isotope_abundances().items()],
    element_densities=lambda: [[sym, v] for sym, v in live_element_densities().items()],
    neutron_rows=lambda: live_neutron_rows(),
    neutron_imag_rows=lambda: [[Z, A] + list(v) for (Z, A), v in live_neutron_imag_rows().items()],
    energy_tables=lambda: [[sym, A, [list(r) for r in rows]] for (sym, A), rows in live_energy_tables().items()],
    covalent_radii=lambda: [[Z, lab, r, u] for Z, (lab, r, u) in live_covalent_radii().items()],
    crystal_structures=lambda: [[i, v, lab] for i, v, lab in live_crystal_structures()],
    spectral_lines=lambda: [[sym, ka, kb] for sym, (ka, kb) in live_spectral_lines().items()],
    magnetic_records=lambda: [[kind, sym, q, list(c)] for kind, sym, q, c in live_magnetic_records()],
    cromer_mann=_live_cromer_mann_rows,
)


def make_pinned():
    """The content of the pinned copy, read from the tree in VERIF_REPO with the text readers (JSON-able: lists of
    rows in table order, no tuple keys)."""
    return _plain(dict((n, LIVE_MAKERS[n]()) for n in TABLE_NAMES))


def write_pinned():
    import json, subprocess
    def git(*a):
        try:
            return subprocess.run(("git", "-C", REPO) + a, capture_output=True, text=True).stdout.strip()
        except OSError:
            return "?"
    data = make_pinned()
    data["made_from"] = dict(
        tree=REPO, commit=git("rev-parse", "--short", "HEAD"),
        uncommitted_changes_in_periodictable=git("status", "--porcelain", "--", "periodictable"),
        how="cd /verif && VERIF_REPO=%s /venv/bin/python -m mc.ref.tables --write-pinned  (mc/ref/tables.py: the text readers "
            "live_* and mc/ref/xray.py f0_entries() applied to that tree; floats written with repr, read back exactly)" % REPO,
        rows=dict((n, len(data[n])) for n in TABLE_NAMES))
    with open(PINNED_FILE, "w") as f:
        json.dump(data, f, indent=None, separators=(",", ":"), sort_keys=True)
        f.write("\n")
    return data["made_from"]


def pinned():
    global _PINNED
    if _PINNED is None:
        import json
        try:
            data = json.load(open(PINNED_FILE))
        except (OSError, ValueError) as e:
            raise MachineryError("pinned reference tables %s: %s" % (PINNED_FILE, e))
        for n in TABLE_NAMES:
            if n not in data or len(data[n]) != PINNED_ROWS[n]:
                raise MachineryError("pinned reference tables: %s has %s rows, %d expected"
                                     % (n, len(data[n]) if n in data else "no", PINNED_ROWS[n]))
        _PINNED = data
    return _PINNED


# ------------------------------------------------------------------ which copy the checks judge against
# The properties speak of "the embedded table": the data the tree under test carries.  A deliberate update of the
# data (new masses, a corrected row) must therefore move the reference with it, while a change of the LAYOUT of the
# source (list -> dict, other variable, other file) must neither break the check nor take rows away unnoticed.  So:
# per table, the text of the tree under test is the reference as long as the text reader can read it and finds at
# least 90 % of the rows of the pinned copy; otherwise (unreadable, or most rows gone) the pinned copy is.  The
# choice is made once per run in a forked child (the coordinating process never imports the library) and recorded.
_REFERENCE = None
_REFERENCE_NOTES = None


def _build_reference():
    want = pinned()
    out, notes = {}, []
    for n in TABLE_NAMES:
        try:
            rows = _plain(LIVE_MAKERS[n]())
            if len(rows) * 10 < PINNED_ROWS[n] * 9:
                raise ValueError("only %d of %d rows found" % (len(rows), PINNED_ROWS[n]))
            out[n] = rows
            if rows != want[n]:
                notes.append("%s: the table text of the tree under test differs from the pinned copy (%d rows / %d); "
                             "the tree's text is the reference" % (n, len(rows), len(want[n])))
        except Exception as e:
            out[n] = want[n]
            notes.append("%s: the table text of the tree under test is unreadable for the text reader (%s: %s); the "
                         "pinned copy is the reference" % (n, type(e).__name__, str(e)[:120]))
    return out, notes


def reference():
    global _REFERENCE, _REFERENCE_NOTES
    if _REFERENCE is None:
        from .. import histmc
        _REFERENCE, _REFERENCE_NOTES = histmc.in_fork(_build_reference)
    return _REFERENCE


def reference_notes():
    reference()
    return list(_REFERENCE_NOTES)


def pinned_origin():
    m = pinned()["made_from"]
    return "commit %s of %s" % (m.get("commit"), m.get("tree"))


def _unique(pairs, what):
    out = {}
    for k, v in pairs:
        if k in out:
            raise MachineryError("reference tables: duplicate %s %r" % (what, k))
        out[k] = v
    return out


def isotope_masses():
    """{(Z, A): (symbol, mass, unc)} - the isotope-mass table (pinned copy)."""
    return _unique((((r[0], r[1]), (r[2], r[3], r[4])) for r in reference()["isotope_mass"]), "isotope")


def isotope_table_element_masses():
    """{Z: (mass, unc)}: the element-mass column of the isotope-mass table (last row of each element, as the loader
    reads it; used for elements that the atomic-weight table does not list)."""
    out = {}
    for r in reference()["isotope_mass"]:
        out[r[0]] = (r[5], r[6])
    return out


def element_masses():
    """{Z: (symbol, mass, unc)} - the atomic-weight table; elements listed with '-' are absent."""
    return _unique(((r[0], (r[1], r[2], r[3])) for r in reference()["element_mass"]), "element")


def all_element_numbers():
    """Z of every element row of the atomic-weight table, with or without a value: 1..118."""
    return sorted(set(r[0] for r in reference()["isotope_mass"]))


def isotope_abundances():
    """{Z: {A: (fraction, unc)}} - the isotopic-composition table (fractions as listed, not normalised)."""
    return _unique(((z, _unique(((a, (v, u)) for a, v, u in block), "isotope of %d" % z))
                    for z, block in reference()["isotope_abundance"]), "composition block")


def element_densities():
    """{symbol: density or None (listed as unknown)} - the density table."""
    return _unique(((s, v) for s, v in reference()["element_densities"]), "density row")


def neutron_rows():
    """List of dicts, one per row of the neutron table (keys as in live_neutron_rows)."""
    rows = [dict(r) for r in reference()["neutron_rows"]]
    _unique((((r["Z"], r["A"]), 1) for r in rows), "neutron row")
    return rows


def neutron_imag_rows():
    """{(Z, A): (b_c_i, bp_i, bm_i)}"""
    return _unique((((r[0], r[1]), tuple(r[2:5])) for r in reference()["neutron_imag_rows"]), "imaginary row")


def energy_tables():
    """{(symbol, A or None): [(E_eV, re, im, abs), ...]}"""
    return _unique((((s, a), [tuple(x) for x in rows]) for s, a, rows in reference()["energy_tables"]), "energy table")


def covalent_radii():
    """{Z: (symbol-label, radius, uncertainty)} - first state of each element."""
    return _unique(((r[0], (r[1], r[2], r[3])) for r in reference()["covalent_radii"]), "Cordero row")


def crystal_structures():
    """List of (index, value or None, label): the slots of the structure list in order, with the trailing #Sym
    comment each slot had in the source."""
    return [(i, v, lab) for i, v, lab in reference()["crystal_structures"]]


def spectral_lines():
    """{symbol: (K_alpha, K_beta1)}"""
    return _unique(((r[0], (r[1], r[2])) for r in reference()["spectral_lines"]), "emission row")


def magnetic_records():
    """List of (kind, symbol, charge, coefficients[7]); Ho2+ J is listed twice in the data (both kept)."""
    return [(k, s, q, tuple(c)) for k, s, q, c in reference()["magnetic_records"]]


_CMSYM = re.compile(r"^([A-Z][a-z]?)(?:([0-9]+)([+-]))?$")


def cromer_mann_entries():
    """List of dict(Z, symbol, a[5], c, b[5]) - every '#S' entry of f0_WaasKirf.dat (pinned copy), symbols as written
    there ('Fe', 'Fe2+', 'O1-', and the valence states 'Cval', 'Siva')."""
    out = [dict(Z=r[0], symbol=r[1], a=tuple(r[2]), c=r[3], b=tuple(r[4])) for r in reference()["cromer_mann"]]
    _unique(((e["symbol"], 1) for e in out), "Cromer-Mann entry")
    return out


def cromer_mann_symbol_parts(symbol):
    """'Fe2+' -> ('Fe', 2); 'O1-' -> ('O', -1); 'O' -> ('O', 0); 'Cval', 'Siva' (valence states) -> None."""
    m = _CMSYM.match(symbol)
    if not m:
        return None
    q = int(m.group(2)) if m.group(2) else 0
    return m.group(1), (q if m.group(3) != "-" else -q)


def live_differences():
    """[text, ...]: where the tables of the tree under test, as far as the text readers can still read them, differ
    from the pinned copy.  Information for the run record only - the checks judge the library against the copy."""
    import json
    notes = []
    want = pinned()
    parts = dict(
        mass=("isotope_mass", "element_mass", "isotope_abundance"), density=("element_densities",),
        neutron=("neutron_rows", "neutron_imag_rows", "energy_tables"), covalent_radius=("covalent_radii",),
        crystal_structure=("crystal_structures",), xsf=("spectral_lines", "cromer_mann"), magnetic_ff=("magnetic_records",))
    try:
        got = make_pinned()
    except Exception as e:
        got = None
        first = "%s: %s" % (type(e).__name__, e)
    if got is None:
        # find out which tables are still readable
        from . import xray as rx
        readers = dict(isotope_mass=live_isotope_masses, element_mass=live_element_masses,
                       isotope_abundance=live_isotope_abundances, element_densities=live_element_densities,
                       neutron_rows=live_neutron_rows, neutron_imag_rows=live_neutron_imag_rows,
                       energy_tables=live_energy_tables, covalent_radii=live_covalent_radii,
                       crystal_structures=live_crystal_structures, spectral_lines=live_spectral_lines,
                       magnetic_records=live_magnetic_records, cromer_mann=rx.f0_entries)
        for n in TABLE_NAMES:
            try:
                readers[n]()
            except Exception as e:
                notes.append("%s: the text of the tree under test is unreadable for the text reader (%s: %s); "
                             "the pinned copy is the reference" % (n, type(e).__name__, str(e)[:120]))
        return notes or ["text readers failed (%s); the pinned copy is the reference" % first]
    for n in TABLE_NAMES:
        a = [json.dumps(r, sort_keys=True) for r in got[n]]
        b = [json.dumps(r, sort_keys=True) for r in want[n]]
        if a != b:
            sa, sb = set(a), set(b)
            only_live, only_pin = [r for r in a if r not in sb], [r for r in b if r not in sa]
            notes.append("%s: the text of the tree under test differs from the pinned copy (%d rows only in the tree, %d only "
                         "in the copy, %d / %d rows%s); first: %s | %s" % (
                             n, len(only_live), len(only_pin), len(a), len(b),
                             "" if (only_live or only_pin) else ", order differs",
                             (only_live or ["-"])[0][:160], (only_pin or ["-"])[0][:160]))
    return notes


if __name__ == "__main__":
    import sys
    if sys.argv[1:] == ["--write-pinned"]:
        print(write_pinned())
    elif sys.argv[1:] == ["--diff"]:
        for ln in live_differences() or ["the tables of %s equal the pinned copy" % REPO]:
            print(ln)
    else:
        print("usage: python -m mc.ref.tables --write-pinned | --diff")
