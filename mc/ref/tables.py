"""Independent readers for the tables embedded in periodictable.

Every reader works on the TEXT of the table (module string attribute, data file, or - for Python
literals - the source file through `ast`), shares no code with the library's own parsers and
returns plain Python values.  Duplicated keys in the data are reported, never resolved silently."""
import os, re, ast, math
from decimal import Decimal
from ..common import REPO, MachineryError

PKG = os.path.join(REPO, "periodictable")


# ---------------------------------------------------------------- numbers with uncertainty
_VU = re.compile(r"^([+-]?[0-9]*\.?[0-9]*(?:[eE][+-]?[0-9]+)?)\(([0-9.]+)\)(#?)$")


def value_unc(text):
    """value(unc) | value | [nominal] | [low,high]  ->  (value, unc) as floats; '' -> (None, None).

    value(unc): the digits of unc are aligned with the last digits of value, unless unc carries its
    own decimal point.  [low,high]: midpoint, (high-low)/sqrt(12).  [nominal] and bare value: unc 0."""
    s = text.strip()
    if s == "":
        return None, None
    if s[0] == "[":
        if s[-1] != "]":
            raise MachineryError("bad bracket number %r" % text)
        parts = s[1:-1].split(",")
        if len(parts) == 2:
            lo, hi = float(parts[0]), float(parts[1])
            return (lo + hi) / 2.0, (hi - lo) / math.sqrt(12.0)
        if len(parts) == 1:
            return float(parts[0]), 0.0
        raise MachineryError("bad bracket number %r" % text)
    m = _VU.match(s)
    if m:
        val, unc = m.group(1), m.group(2)
        v = Decimal(val)
        if "." in unc or "." not in val or "e" in val.lower():
            u = Decimal(unc)
        else:
            ndec = len(val.split(".")[1])
            u = Decimal(unc).scaleb(-ndec)
        return float(v), float(u)
    return float(s), 0.0


# ---------------------------------------------------------------- mass tables
def _mass_module_text(name):
    import periodictable.mass as m
    return getattr(m, name)


def isotope_masses():
    """{(Z, A): (symbol, mass, unc)} from mass.isotope_mass; line: Z-Sym-A,mass(unc)#?,abund,elmass."""
    out = {}
    for ln in _mass_module_text("isotope_mass").split("\n"):
        f = ln.split(",")
        if len(f) != 4:
            raise MachineryError("isotope_mass line %r" % ln)
        z, sym, a = f[0].split("-")
        key = (int(z), int(a))
        if key in out:
            raise MachineryError("duplicate isotope %r" % (key,))
        v, u = value_unc(f[1].rstrip("#") if f[1].endswith("#") else f[1])
        out[key] = (sym, v, u)
    return out


def isotope_table_element_masses():
    """{Z: (mass, unc)}: the element-mass column of isotope_mass (used for elements that the
    atomic-weight table does not list)."""
    out = {}
    for ln in _mass_module_text("isotope_mass").split("\n"):
        f = ln.split(",")
        z = int(f[0].split("-")[0])
        out[z] = value_unc(f[3])
    return out


def element_masses():
    """{Z: (symbol, mass, unc)} from mass.element_mass (abridged value, first number column)."""
    out = {}
    for ln in _mass_module_text("element_mass").split("\n"):
        f = ln.split()
        z, sym, name, val = f[0], f[1], f[2], f[3]
        if val == "-":
            continue
        v, u = value_unc(val)
        out[int(z)] = (sym, v, u)
    return out


def isotope_abundances():
    """{Z: {A: (fraction, unc)}} from mass.isotope_abundance (fractions as listed, not normalised)."""
    out = {}
    cur = None
    for ln in _mass_module_text("isotope_abundance").split("\n"):
        if not ln.strip():
            continue
        if ln[0] not in " \t":
            cur = int(ln.split()[0])
            if cur in out:
                raise MachineryError("duplicate element block %d" % cur)
            out[cur] = {}
        else:
            f = ln.split()
            a = int(f[0])
            if a in out[cur]:
                raise MachineryError("duplicate isotope %d-%d" % (cur, a))
            out[cur][a] = value_unc(f[1])
    return out


# ---------------------------------------------------------------- density (python literal in the source)
def _assigned_call_or_literal(path, name):
    tree = ast.parse(open(path, encoding="latin-1").read())
    for node in tree.body:
        if isinstance(node, ast.Assign) and any(isinstance(t, ast.Name) and t.id == name for t in node.targets):
            return node.value
    raise MachineryError("%s not found in %s" % (name, path))


def element_densities():
    """{symbol: density or None} read from density.py's source: element_densities = dict(Sym=value|(value, note)|None)."""
    node = _assigned_call_or_literal(os.path.join(PKG, "density.py"), "element_densities")
    out = {}
    if isinstance(node, ast.Call):
        items = [(kw.arg, kw.value) for kw in node.keywords]
    elif isinstance(node, ast.Dict):
        items = [(ast.literal_eval(k), v) for k, v in zip(node.keys, node.values)]
    else:
        raise MachineryError("unexpected form of element_densities")
    for k, v in items:
        val = ast.literal_eval(v)
        if isinstance(val, tuple):
            val = val[0]
        if k in out:
            raise MachineryError("duplicate density key %s" % k)
        out[k] = None if val is None else float(val)
    return out


# ---------------------------------------------------------------- neutron scattering table
def _strip_number(s):
    """'35.24(2)*' -> 35.24 ; '<1e-6' -> 1e-6 ; '' -> None (uncertainty dropped, limits and
    estimates read as the bare number, blank as missing)."""
    s = s.strip()
    if s == "":
        return None
    s = s.lstrip("<").rstrip("*")
    m = re.match(r"^([+-]?[0-9.]+(?:[eE][+-]?[0-9]+)?)(?:\([0-9.]+\))?$", s)
    if not m:
        raise MachineryError("unparsable neutron table number %r" % s)
    return float(m.group(1))


def neutron_rows():
    """List of dicts, one per row of nsf.nsftable, columns per the comment block above the table:
    Z-Symbol[-A], concentration/half-life, spin, b_c, bp, bm, c (E flag), coherent, incoherent,
    total, absorption."""
    import periodictable.nsf as nsf
    rows = []
    seen = set()
    for ln in nsf.nsftable.split("\n"):
        f = ln.split(",")
        if len(f) != 11:
            raise MachineryError("neutron row with %d columns: %r" % (len(f), ln))
        ident = f[0].split("-")
        Z, sym = int(ident[0]), ident[1]
        A = int(ident[2]) if len(ident) == 3 else 0
        if (Z, A) in seen:
            raise MachineryError("duplicate neutron row %r" % f[0])
        seen.add((Z, A))
        conc = f[1].strip()
        halflife = bool(re.search(r"[A-Za-z]", conc))
        rows.append(dict(
            Z=Z, symbol=sym, A=A, line=ln,
            abundance=(0.0 if halflife else (_strip_number(conc) if conc else None)),
            is_halflife=halflife, spin=f[2],
            b_c=_strip_number(f[3]), bp=_strip_number(f[4]), bm=_strip_number(f[5]),
            E=(f[6].strip() == "E"),
            coherent=_strip_number(f[7]), incoherent=_strip_number(f[8]),
            total=_strip_number(f[9]), absorption=_strip_number(f[10])))
    return rows


def neutron_imag_rows():
    """{(Z, A): (b_c_i, bp_i, bm_i)} from nsf.nsftableI."""
    import periodictable.nsf as nsf
    out = {}
    for ln in nsf.nsftableI.split("\n"):
        f = ln.split(",")
        ident = f[0].split("-")
        key = (int(ident[0]), int(ident[2]) if len(ident) == 3 else 0)
        if key in out:
            raise MachineryError("duplicate imaginary row %r" % f[0])
        out[key] = tuple(_strip_number(x) for x in f[1:4])
    return out


def energy_tables():
    """{(symbol, A or None): [(E_eV, re, im, abs), ...]} - nsf_tables.ENERGY_DEPENDENT_TABLES read as-is."""
    from periodictable.nsf_tables import ENERGY_DEPENDENT_TABLES
    return dict((k, [tuple(float(x) for x in row) for row in v]) for k, v in ENERGY_DEPENDENT_TABLES.items())


# ---------------------------------------------------------------- covalent radii (Cordero)
def covalent_radii():
    """{Z: (symbol-label, radius, uncertainty)} from covalent_radius.Cordero.
    Columns (comment above the table): Z, Symbol, radius(A), uncertainty (0.01A), n measurements.
    Rows whose first field is '-' are alternate spin/hybridisation states of the previous element
    and are skipped (first state wins).  Missing uncertainty -> 0."""
    import periodictable.covalent_radius as cr
    out = {}
    for ln in cr.Cordero.split("\n"):
        f = ln.split()
        if not f or f[0] == "-":
            continue
        Z = int(f[0])
        if Z in out:
            raise MachineryError("duplicate Cordero row %d" % Z)
        unc = float(f[3]) * 0.01 if len(f) > 3 else 0.0
        out[Z] = (f[1], float(f[2]), unc)
    return out


# ---------------------------------------------------------------- crystal structures (python literal + #Sym comments)
def crystal_structures():
    """List of (index, value, label) from the source of crystal_structure.py: the entries of the
    `crystal_structures` list literal with the trailing `#Sym` comment of each entry (the
    independent statement of which element the entry belongs to)."""
    import tokenize, io
    path = os.path.join(PKG, "crystal_structure.py")
    src = open(path, encoding="latin-1").read()
    node = _assigned_call_or_literal(path, "crystal_structures")
    if not isinstance(node, ast.List):
        raise MachineryError("crystal_structures is not a list literal")
    values = [(ast.literal_eval(e), e.end_lineno) for e in node.elts]
    comments = {}
    for tok in tokenize.generate_tokens(io.StringIO(src).readline):
        if tok.type == tokenize.COMMENT:
            comments[tok.start[0]] = tok.string.lstrip("#").strip()
    return [(i, v, comments.get(line)) for i, (v, line) in enumerate(values)]


# ---------------------------------------------------------------- emission lines
def spectral_lines():
    """{symbol: (K_alpha, K_beta1)} from xsf.spectral_lines_data (columns: element, K_alpha, K_beta1)."""
    import periodictable.xsf as xsf
    out = {}
    for ln in xsf.spectral_lines_data.split("\n"):
        f = ln.split()
        if len(f) != 3:
            raise MachineryError("spectral line row %r" % ln)
        if f[0] in out:
            raise MachineryError("duplicate spectral line row %s" % f[0])
        out[f[0]] = (float(f[1]), float(f[2]))
    return out


# ---------------------------------------------------------------- magnetic form factors (CrysFML text)
_CFML = re.compile(
    r"Magnetic_(Form|j2|j4|j6)\(\s*\d+\)\s*=\s*Magnetic_Form_Type\(\"\s*([A-Za-z]+)(\d)\s*\"\s*,\s*&?\s*"
    r"\(/([^/]*)/\)\s*\)", re.S)


def magnetic_records():
    """List of (kind, symbol, charge, coefficients[7]) for every record of magnetic_ff.CFML_DATA.
    kind is 'j0' (Magnetic_Form with leading M), 'J' (leading J), 'j2', 'j4', 'j6'.  Own regex; no eval."""
    import periodictable.magnetic_ff as mff
    out = []
    for m in _CFML.finditer(mff.CFML_DATA):
        arr, label, charge, body = m.group(1), m.group(2), int(m.group(3)), m.group(4)
        coeffs = tuple(float(x) for x in body.replace("&", " ").split(","))
        if len(coeffs) != 7:
            raise MachineryError("magnetic record with %d coefficients: %s%d" % (len(coeffs), label, charge))
        if arr == "Form":
            kind = {"M": "j0", "J": "J"}.get(label[0])
            if kind is None:
                raise MachineryError("Magnetic_Form label %r" % label)
            label = label[1:]
        else:
            kind = arr
        sym = label[0] + label[1:].lower()
        out.append((kind, sym, charge, coeffs))
    n_decl = len(re.findall(r"Magnetic_Form_Type\(\"", mff.CFML_DATA))
    if n_decl != len(out):
        raise MachineryError("magnetic reader matched %d of %d records" % (len(out), n_decl))
    return out
