"""Reference for C12: closed forms on plain numbers, no code shared with the library.

A composition is an ordered dict  key -> count  (zero counts allowed, they denote nothing).
`mass[key]` is the mass of the atom as it is (neutral isotope/element mass less charge electron
masses), `natmass[key]` the mass of the natural element carrying the SAME charge."""
import math


def total(comp, m):
    return sum(c * m[k] for k, c in comp.items())


def ratio(comp, mass, natmass):
    """natural_density / density = (mass with every isotope replaced by its natural element, ion
    charges kept) / (actual mass).  All terms are positive: nothing cancels."""
    return total(comp, natmass) / total(comp, mass)


def replace(comp, rho, source, target, portion, mass):
    """Substitute `portion` of the source count by target: other counts kept, cell volume kept
    (density scales with the mass), unknown density stays unknown."""
    if source not in comp:
        return dict(comp), rho
    new = dict(comp)
    moved = comp[source] * portion
    new[target] = new.get(target, 0) + moved
    new[source] = comp[source] - moved
    if rho is None:
        return new, None
    return new, rho * total(new, mass) / total(comp, mass)


def nonzero(comp):
    return dict((k, c) for k, c in comp.items() if c != 0)


# ---- volumes
# closed forms of the five lattices; the docstring of Formula.volume prints them to 5 digits
PACKING = dict(cubic=math.pi / 6, bcc=math.pi * math.sqrt(3) / 8, hcp=math.pi / math.sqrt(18),
               fcc=math.pi / math.sqrt(18), diamond=math.pi * math.sqrt(3) / 16)
PACKING_PRINTED = dict(cubic=0.52360, bcc=0.68017, hcp=0.74048, fcc=0.74048, diamond=0.34009)
for _k, _v in PACKING.items():
    assert abs(_v - PACKING_PRINTED[_k]) < 6e-6, _k


def packing_volume(comp, radius, pf):
    """cm^3: summed covalent-sphere volume (radii in Angstrom) divided by the packing factor."""
    spheres = sum(c * (4.0 / 3.0) * math.pi * radius[k] ** 3 for k, c in comp.items())
    return spheres / pf * 1e-24


def cell_radicand(alpha, beta, gamma):
    ca, cb, cg = (math.cos(math.radians(x)) for x in (alpha, beta, gamma))
    return 1 - ca * ca - cb * cb - cg * cg + 2 * ca * cb * cg


def cell_volume(a, b, c, alpha, beta, gamma):
    """cm^3 for lengths in Angstrom, angles in degrees."""
    return a * b * c * math.sqrt(cell_radicand(alpha, beta, gamma)) * 1e-24
