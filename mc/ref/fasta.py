"""Reference model for C18 (biomolecule sequences are the sum of their residues).

Deliberately boring and sharing no code with periodictable.fasta:

* the IUPAC / IUB code tables, written out by hand: which codes are plain residues and which
  residues every ambiguity code stands for (equal weight);
* what a code string means: stop at the first '*', ignore spaces;
* a FASTA splitter: one record per '>' line, sequence = concatenation of the lines that follow.

The numerical values of the plain residues (formula, cell volume, charge, masses) have no
independent source; C18 is about SUMS, so the check module reads them from the single-residue
entries of the library's code tables and this module only says how they combine."""

TYPES = ("aa", "dna", "rna")

# ---- plain (unambiguous) residue codes -------------------------------------------------------
# the twenty standard amino acids, one letter codes
AA_PLAIN = ("A", "C", "D", "E", "F", "G", "H", "I", "K", "L",
            "M", "N", "P", "Q", "R", "S", "T", "V", "W", "Y")
DNA_PLAIN = ("A", "C", "G", "T")
RNA_PLAIN = ("A", "C", "G", "U")

# ---- ambiguity codes: code -> the residues it stands for (IUPAC-IUB 1984 / NC-IUB 1985) ------
AA_AMBIGUOUS = {
    "B": ("D", "N"),           # aspartic acid or asparagine
    "Z": ("E", "Q"),           # glutamic acid or glutamine
    "J": ("L", "I"),           # leucine or isoleucine
    "X": ("A", "C", "D", "E", "F", "G", "H", "I", "K", "L",
          "M", "N", "P", "Q", "R", "S", "T", "V", "W", "Y"),   # any of the twenty
    "-": (),                   # gap: nothing
}
DNA_AMBIGUOUS = {
    "U": ("T",),               # a DNA sequence treats U as T (Sequence docstring)
    "R": ("A", "G"),           # purine
    "Y": ("C", "T"),           # pyrimidine
    "K": ("G", "T"),           # keto
    "M": ("A", "C"),           # amino
    "S": ("C", "G"),           # strong
    "W": ("A", "T"),           # weak
    "B": ("C", "G", "T"),      # not A
    "D": ("A", "G", "T"),      # not C
    "H": ("A", "C", "T"),      # not G
    "V": ("A", "C", "G"),      # not T
    "N": ("A", "C", "G", "T"), # any base
    "X": (),                   # masked: nothing
    "-": (),                   # gap: nothing
}
RNA_AMBIGUOUS = {
    "T": ("U",),               # an RNA sequence treats T as U (Sequence docstring)
    "R": ("A", "G"),
    "Y": ("C", "U"),
    "K": ("G", "U"),
    "M": ("A", "C"),
    "S": ("C", "G"),
    "W": ("A", "U"),
    "B": ("C", "G", "U"),
    "D": ("A", "G", "U"),
    "H": ("A", "C", "U"),
    "V": ("A", "C", "G"),
    "N": ("A", "C", "G", "U"),
    "X": (),
    "-": (),
}

PLAIN = {"aa": AA_PLAIN, "dna": DNA_PLAIN, "rna": RNA_PLAIN}
AMBIGUOUS = {"aa": AA_AMBIGUOUS, "dna": DNA_AMBIGUOUS, "rna": RNA_AMBIGUOUS}


def codes(seq_type):
    """All codes of a sequence type, in a fixed order (plain first)."""
    return tuple(PLAIN[seq_type]) + tuple(sorted(AMBIGUOUS[seq_type]))


def constituents(seq_type, code):
    """The plain residues a code stands for (itself if it is plain)."""
    if code in PLAIN[seq_type]:
        return (code,)
    return AMBIGUOUS[seq_type][code]


def clean(raw):
    """The residue codes denoted by a code string: everything from the first '*' on is dropped,
    spaces are ignored."""
    out = []
    for ch in raw:
        if ch == "*":
            break
        if ch != " ":
            out.append(ch)
    return "".join(out)


def split_fasta(lines):
    """FASTA text (a list of lines without line ends) -> [(header text, sequence text)].
    One record per '>' line; its sequence is the concatenation of the lines that follow it up
    to the next '>' line.  Lines before the first header belong to no record."""
    records = []
    for line in lines:
        if line[:1] == ">":
            records.append([line[1:], []])
        elif records:
            records[-1][1].append(line)
    return [(head, "".join(parts)) for head, parts in records]


# ---- sequence type from the file name ---------------------------------------------------------
# NCBI conventions: .fna nucleic acid, .ffn nucleotide coding regions, .faa amino acid,
# .frn non-coding RNA.  Anything else: the Sequence class default, 'aa'.
EXTENSION_TYPE = {".fna": "dna", ".ffn": "dna", ".faa": "aa", ".frn": "rna"}
DEFAULT_TYPE = "aa"


def type_of(filename, explicit=None):
    if explicit is not None:
        return explicit
    dot = filename.rfind(".")
    ext = filename[dot:] if dot >= 0 and "/" not in filename[dot:] else ""
    return EXTENSION_TYPE.get(ext, DEFAULT_TYPE)


# ---- the same rule for whole paths -------------------------------------------------------------
# "The file extension" of a path is stated here without any library: the part of the LAST path
# component from its LAST dot to its end.  Dots in directory components, earlier dots of the file
# name, './' and '../' do not take part.  The comparison with the four NCBI extensions is exact
# (lower case, as file names are case-sensitive on the platform the check runs on).
KNOWN_WORDS = tuple(sorted(e[1:] for e in EXTENSION_TYPE))


def path_extension(path):
    """(judged, extension).  judged is False for a last component that consists of nothing but
    dots followed by a known extension word ('.fna', '..frn'): a hidden file WITHOUT extension under
    the os.path.splitext convention, a file with that extension under the suffix convention - the
    property text does not decide between the two."""
    base = path.split("/")[-1]
    dot = base.rfind(".")
    if dot < 0:
        return True, ""
    stem, ext = base[:dot], base[dot:]
    if stem.strip(".") == "" and ext in EXTENSION_TYPE:
        return False, ext
    return True, ext


def path_type(path, explicit=None):
    """Expected sequence type of the records of the file at path, None = not judged."""
    if explicit is not None:
        return explicit
    judged, ext = path_extension(path)
    if not judged:
        return None
    return EXTENSION_TYPE.get(ext, DEFAULT_TYPE)


def name_class(path):
    """The class of file name a path belongs to (names the cause in a signature)."""
    comps = path.split("/")
    base, dirs = comps[-1], comps[:-1]
    _, ext = path_extension(path)
    stem = base[:len(base) - len(ext)]
    if ext in EXTENSION_TYPE:
        if "." in stem:
            return "known-extension:several-dots-in-name"
        if any("." in d for d in dirs):
            return "known-extension:dot-in-directory"
        return "known-extension"
    if ext.lower() in EXTENSION_TYPE:
        return "default-extension:other-case"
    if any(w in path for w in KNOWN_WORDS):
        return "default-extension:known-word-elsewhere"
    return "default-extension"


def is_file_path(rel):
    """A relative path that can name a regular file: not empty, not absolute, last component a
    real name."""
    if not rel or rel.startswith("/"):
        return False
    return rel.split("/")[-1] not in ("", ".", "..")
