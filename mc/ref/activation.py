"""Reference model for C14: own reader of activation.dat and exact solutions of the three
documented reaction chains in 80-digit `decimal` arithmetic.

Shares no code with periodictable.activation.  The chain equations are derived from the module
docstring of periodictable/activation.py ("Accounts for burnup and 2n, g production", "Reaction = b
indicates production via decay from an activation produced parent") and from the spreadsheet
column comments inside activity() (columns H, K, L, M, N, P, Q, R, S, U, V, W):

  sigma1 = Thermal(b) + Resonance(b)/Cd            (epithermal part only if Cd ratio >= 1)
  sigma2 = thermal + resonance/Cd of the columns "Cross-section (b) of 2n precursor & burnup X-sect"
  phi    = thermal fluence, or fluence/fast_ratio for rows flagged fast ("effective reaction flux")
  R      = phi*sigma1*1e-24 * (mass/A) * 1.6278e19   saturation activity in uCi; A = mass number,
           1.6278e19 = atoms per mole / (3.7e4 decays/s per uCi) as the spreadsheet rounds it
  lam    = ln2 / (t1/2 in hr)   of the product;   lamP = ln2 / (t1/2 of parent)
  a      = phi*sigma1*3600e-24        burn rate of the target (1/h)
  c      = fluence*sigma2*3600e-24    capture rate on the product / on the intermediate (1/h; "always
           uses the total thermal flux")

  single capture (act, n,p, n,a, n,2n, n,n'):  N1' = -a N1,  N2' = a N1 - (lam + c) N2
        activity = lam N2 = R * lam * (exp(-a t) - exp(-(lam+c) t)) / (lam + c - a)
  '2n' two-step capture:  N1' = -a N1,  N2' = a N1 - (c + lamP) N2,  N3' = c N2 - lam N3
        activity = lam N3 = R * lam * c * sum_i exp(-k_i t) / prod_{j != i} (k_j - k_i),
        k = (a, c + lamP, lam)    (three-rate Bateman sum, middle branching ratio c/(c+lamP))
  'b' decay feeding:  Np' = R - lamP Np,  Nd' = lamP Np - lam Nd     (no burn-up)
        activity = lam Nd = R * (lam*expm1(-lamP t) - lamP*expm1(-lam t)) / (lamP - lam)
  rest time:  activity(t_rest) = activity * 2^(-t_rest / t1/2) = activity * exp(-lam t_rest)

Besides the exact value each solver returns kappa, the amplification factor of rounding errors when
the documented closed form is evaluated term by term in floating point: sum of the magnitudes of
the terms (each weighted by the cancellation in its own rate differences) over the magnitude of
the sum.  A deviation of the library that is <= 64*eps*kappa is *explained by cancellation in the
documented formula*; a larger one is not.
"""
import os
import decimal
from decimal import Decimal
from ..common import REPO, MachineryError

PREC = 80
CTX = decimal.Context(prec=PREC, rounding=decimal.ROUND_HALF_EVEN,
                      Emin=decimal.MIN_EMIN, Emax=decimal.MAX_EMAX,
                      traps=[decimal.InvalidOperation, decimal.DivisionByZero, decimal.Overflow])
D0 = Decimal(0)
D1 = Decimal(1)
LN2 = CTX.ln(Decimal(2))
UCI = Decimal("1.6278e19")      # documented spreadsheet constant (atoms/mol per uCi-second)
BARN = Decimal("1e-24")
HOUR = Decimal(3600)
KAPPA_LIMIT = Decimal("1e45")   # the 80-digit reference keeps >= 30 good digits below this
REACTIONS = ("act", "2n", "b", "n,p", "n,a", "n,2n", "n,n'")
UNIT_HOURS = {"s": Decimal(1) / 3600, "m": Decimal(1) / 60, "h": Decimal(1), "d": Decimal(24),
              "y": Decimal(8760)}


# ------------------------------------------------------------------------------ table reader
def _cells(line):
    out = []
    for c in line.rstrip("\r\n").split("\t"):
        if len(c) >= 2 and c[0] == '"' and c[-1] == '"':
            c = c[1:-1].replace('""', '"')
        out.append(c)
    return out


def _find(cells, label, start=0, what=""):
    hits = [i for i, c in enumerate(cells) if i >= start and c.strip() == label]
    if len(hits) != 1:
        raise MachineryError("activation.dat header: label %r %s found %d times" % (label, what, len(hits)))
    return hits[0]


def _num(text, what):
    t = text.strip()
    if t == "":
        return None
    try:
        return Decimal(t)
    except decimal.InvalidOperation:
        raise MachineryError("activation.dat: %s is not a number: %r" % (what, text))


class Row(object):
    """One reaction row; numbers are exact Decimals of the printed text (blank = 0 where the
    spreadsheet treats an empty cell as 0)."""
    __slots__ = ("index", "Z", "symbol", "A", "isotope", "abundance", "daughter", "thalf_value",
                 "thalf_unit", "isomer", "reaction", "fast", "thermal", "resonance", "thalf_hrs",
                 "thalf_str", "thalf_parent", "thermal_parent", "resonance_parent", "comment", "pos",
                 "lineno")

    @property
    def family(self):
        return self.reaction if self.reaction in ("2n", "b") else "act"

    def ident(self):
        return dict(index=self.index, Z=self.Z, A=self.A, isotope=self.isotope, daughter=self.daughter,
                    reaction=self.reaction, pos=self.pos)


def locate_columns(h1, h2, h3, h4):
    """Column positions from the file's own four header lines."""
    col = {}
    col["index"] = _find(h2, "Index")
    col["Z"] = _find(h3, "Z")
    col["symbol"] = _find(h2, "Symbol")
    col["A"] = _find(h3, "A")
    col["abundance"] = _find(h3, "Abund")
    col["daughter"] = _find(h3, "Nuclide")
    col["unit"] = _find(h3, "unit")
    col["isomer"] = _find(h2, "isomer")
    col["percentIT"] = _find(h3, "%IT")
    col["fast"] = _find(h4, "?")                       # "fast" / "?" are written diagonally
    fast_label = _find(h3, "fast")
    col["thermal"] = _find(h2, "Thermal")
    col["gT"] = _find(h3, "g(T)")
    col["resonance"] = _find(h2, "Resonance")
    col["thalf_hrs"] = _find(h4, "in hr")
    col["thalf_str"] = _find(h3, "as text")
    col["thalf_parent"] = _find(h3, "parent")
    col["thermal_parent"] = _find(h4, "thermal")
    col["resonance_parent"] = _find(h4, "resonance")
    col["comment"] = _find(h4, "Comments")
    # the two "t1/2" labels of line 3: value column (left of "unit") and hours column (above "in hr")
    t12 = [i for i, c in enumerate(h3) if c.strip() == "t1/2"]
    if t12 != [col["unit"] - 1, col["thalf_hrs"]]:
        raise MachineryError("activation.dat header: t1/2 labels at %r" % (t12,))
    col["thalf_value"] = t12[0]
    # reaction: the column under the "Reaction" group marked by "^", between %IT and "fast ?"
    col["reaction"] = col["fast"] - 1
    if fast_label not in (col["reaction"], col["fast"]) or h2[col["reaction"]].strip() != "^" \
            or col["reaction"] != col["percentIT"] + 1:
        raise MachineryError("activation.dat header: cannot place the reaction / fast columns")
    # isotope name: the unlabeled column between A and Abund
    if col["abundance"] != col["A"] + 2:
        raise MachineryError("activation.dat header: no isotope-name column between A and Abund")
    col["isotope"] = col["A"] + 1
    # group labels agree
    for lab, lo, hi in (("(b)", col["thermal"], col["thermal"]), ("(b)", col["resonance"], col["resonance"])):
        if h3[lo].strip() != lab:
            raise MachineryError("activation.dat header: %r expected under Thermal/Resonance" % lab)
    if h2[col["thalf_parent"]].strip() != "t1/2 of" or h2[col["thalf_str"]].strip() != "t1/2":
        raise MachineryError("activation.dat header: t1/2 of parent / t1/2 as text")
    if not (col["thermal_parent"] == col["thalf_parent"] + 1 and col["resonance_parent"] == col["thermal_parent"] + 1
            and "2n" in h3[col["thermal_parent"]] and "2n" in h2[col["thermal_parent"]]):
        raise MachineryError("activation.dat header: 2n parent cross-section columns")
    if len(set(col.values())) != len(col):
        raise MachineryError("activation.dat header: two labels map to one column: %r" % (col,))
    return col


_CACHE = {}


def read_rows(path=None):
    """All reaction rows of activation.dat in file order, with a report of the redundancy checks."""
    path = path or os.path.join(REPO, "periodictable", "activation.dat")
    if path in _CACHE:
        return _CACHE[path]
    with open(path, "r", encoding="latin-1") as f:
        lines = f.read().split("\n")
    hdr = [i for i, ln in enumerate(lines) if "Abund" in ln and "Nuclide" in ln]
    if len(hdr) != 1:
        raise MachineryError("activation.dat: header line found %d times" % len(hdr))
    i3 = hdr[0]
    h1, h2, h3, h4 = (_cells(lines[i3 + k]) for k in (-2, -1, 0, 1))
    col = locate_columns(h1, h2, h3, h4)
    rows, report = [], dict(name_mismatch=[], hours_mismatch=[], text_mismatch=[], abundance_conflict=[])
    per_iso = {}
    ended = False
    for n in range(i3 + 2, len(lines)):
        c = _cells(lines[n])
        if len(c) <= col["index"] or c[col["index"]].strip() == "":
            continue
        if ended:
            raise MachineryError("activation.dat: indexed row after the xx sentinel (line %d)" % (n + 1))
        if c[0].strip() == "xx":
            ended = True
            continue
        if len(c) != len(h3):
            raise MachineryError("activation.dat line %d: %d cells, header has %d" % (n + 1, len(c), len(h3)))
        r = Row()
        r.lineno = n + 1
        r.index = int(c[col["index"]])
        r.Z = int(c[col["Z"]])
        r.symbol = c[col["symbol"]].strip()
        r.A = int(c[col["A"]])
        r.isotope = c[col["isotope"]].strip()
        r.abundance = _num(c[col["abundance"]], "Abund")
        r.daughter = c[col["daughter"]]
        r.thalf_value = c[col["thalf_value"]]
        r.thalf_unit = c[col["unit"]]
        r.isomer = c[col["isomer"]]
        r.reaction = c[col["reaction"]].strip()
        fast = c[col["fast"]].strip()
        if r.reaction not in REACTIONS or fast not in ("y", "n"):
            raise MachineryError("activation.dat line %d: reaction %r fast %r" % (n + 1, r.reaction, fast))
        r.fast = fast == "y"
        r.thermal = _num(c[col["thermal"]], "Thermal") or D0
        r.resonance = _num(c[col["resonance"]], "Resonance") or D0
        r.thalf_hrs = _num(c[col["thalf_hrs"]], "t1/2 in hr")
        r.thalf_str = c[col["thalf_str"]]
        r.thalf_parent = _num(c[col["thalf_parent"]], "t1/2 of parent") or D0
        r.thermal_parent = _num(c[col["thermal_parent"]], "2n thermal") or D0
        r.resonance_parent = _num(c[col["resonance_parent"]], "2n resonance") or D0
        r.comment = c[col["comment"]].strip()
        if r.thalf_hrs is None or r.thalf_hrs <= 0:
            raise MachineryError("activation.dat line %d: half-life in hours %r" % (n + 1, c[col["thalf_hrs"]]))
        if rows and r.index != rows[-1].index + 1:
            raise MachineryError("activation.dat line %d: Index column not consecutive" % (n + 1))
        # internal redundancies (they check MY column map; the data may have a few typos)
        if r.isotope != "%s-%d" % (r.symbol, r.A) or c[0].strip() != r.symbol:
            report["name_mismatch"].append(r.index)
        u = UNIT_HOURS.get(r.thalf_unit.strip())
        v = _num(r.thalf_value, "t1/2")
        if u is None or v is None or abs(v * u - r.thalf_hrs) > Decimal("2e-3") * r.thalf_hrs:
            report["hours_mismatch"].append(r.index)
        digits = "".join(ch for ch in r.thalf_str if ch.isdigit() or ch == ".").strip(".")
        try:
            tv = Decimal(digits)
        except decimal.InvalidOperation:
            tv = None
        scale = {"ky": Decimal("1e3"), "My": Decimal("1e6"), "Gy": Decimal("1e9"), "Ty": Decimal("1e12")}
        suffix = "".join(ch for ch in r.thalf_str if ch.isalpha())
        if tv is not None and suffix in scale:
            tv *= scale[suffix]
        if tv is None or v is None or abs(tv - v) > Decimal("0.06") * v:
            report["text_mismatch"].append(r.index)
        key = (r.Z, r.A)
        lst = per_iso.setdefault(key, [])
        r.pos = len(lst)
        if lst and lst[0].abundance != r.abundance:
            report["abundance_conflict"].append(r.index)
        lst.append(r)
        rows.append(r)
    if not ended:
        raise MachineryError("activation.dat: xx sentinel row not found")
    n = len(rows)
    if n < 100:
        raise MachineryError("activation.dat: only %d rows read" % n)
    if rows[0].index != 1:
        raise MachineryError("activation.dat: first Index is %d" % rows[0].index)
    for k, lim in (("name_mismatch", 0), ("hours_mismatch", n // 50), ("text_mismatch", n // 20)):
        if len(report[k]) > lim:
            raise MachineryError("activation.dat: redundancy check %s fails for %d rows (%r...): column map "
                                 "is wrong" % (k, len(report[k]), report[k][:8]))
    out = (rows, per_iso, report, col)
    _CACHE[path] = out
    return out


# ------------------------------------------------------------------------------ exact solutions
def dec(x):
    """Exact Decimal of a float / int / Decimal argument (a binary float is a rational number)."""
    if isinstance(x, Decimal):
        return x
    if isinstance(x, int):
        return Decimal(x)
    return Decimal(float(x))


def _exp(x):
    """exp(x) for x <= 0 (and moderate x > 0) at PREC digits; far underflow is returned as 0."""
    if x < -100000:
        return D0
    return CTX.exp(x)


def _expm1(x):
    """exp(x) - 1 with >= PREC - 25 good digits for |x| >= 1e-25 (series below that)."""
    if abs(x) < Decimal("1e-25"):
        return CTX.add(x, CTX.divide(CTX.multiply(x, x), Decimal(2)))
    return CTX.subtract(_exp(x), D1)


class Env(object):
    """Activation environment as the documentation defines it."""
    __slots__ = ("fluence", "cd", "fast_ratio", "epi")

    def __init__(self, fluence, cd, fast_ratio):
        self.fluence, self.cd, self.fast_ratio = dec(fluence), dec(cd), dec(fast_ratio)
        # "Use 0 to suppress epithermal contribution"; the factor multiplies the resonance part
        self.epi = CTX.divide(D1, self.cd) if self.cd >= 1 else D0


class Solution(object):
    # kappa: total amplification; kappa_sum: the part that belongs to the exponential sum itself
    # (for '2n' the total additionally contains the cancellation of the capture rate c, which the
    # spreadsheet obtains as (c + lamP) - lamP)
    __slots__ = ("per_gram", "kappa", "kappa_sum", "a", "U", "V", "lam")


def rates(row, env):
    """(R per gram in uCi, a, c, lam, lamP) - see the module docstring."""
    m = CTX.multiply
    sigma1 = CTX.add(row.thermal, m(env.epi, row.resonance))
    sigma2 = CTX.add(row.thermal_parent, m(env.epi, row.resonance_parent))
    if row.fast:
        if env.fast_ratio == 0:
            raise MachineryError("fast row asked for with fast_ratio 0")
        phi = CTX.divide(env.fluence, env.fast_ratio)
    else:
        phi = env.fluence
    R = CTX.divide(m(m(m(phi, sigma1), BARN), UCI), Decimal(row.A))
    a = m(m(m(phi, sigma1), HOUR), BARN)
    c = m(m(m(env.fluence, sigma2), HOUR), BARN)
    lam = CTX.divide(LN2, row.thalf_hrs)
    lamP = CTX.divide(LN2, row.thalf_parent) if row.thalf_parent != 0 else None
    return R, a, c, lam, lamP


def _amp(k, others):
    """1 + sum_j (k + k_j)/|k_j - k|: rounding amplification of the rate differences of one term."""
    s = D1
    for o in others:
        d = abs(CTX.subtract(o, k))
        if d == 0:
            return Decimal("1e60")
        s = CTX.add(s, CTX.divide(CTX.add(abs(o), abs(k)), d))
    return s


def _separate(ks):
    """Exactly coinciding rates (a removable singularity of the closed forms): move one of them by
    1e-30 relative; the solution is smooth in the rates, and 80 digits absorb the cancellation."""
    ks = list(ks)
    for i in range(len(ks)):
        for j in range(i):
            if ks[i] == ks[j]:
                ks[i] = CTX.multiply(ks[i], CTX.add(D1, Decimal("1e-30") * (i + 1))) if ks[i] != 0 \
                    else Decimal("1e-60")
    return ks


def solve(row, env, exposure):
    """End-of-irradiation activity per gram of the target isotope (uCi/g) and kappa."""
    t = dec(exposure)
    m, sub, add, div = CTX.multiply, CTX.subtract, CTX.add, CTX.divide
    R, a, c, lam, lamP = rates(row, env)
    s = Solution()
    s.a, s.lam = a, lam
    s.U = s.V = None
    if row.reaction == "b":
        if lamP is None:
            raise MachineryError("'b' row %d without parent half-life" % row.index)
        lam_, lamP_ = _separate([lam, lamP])
        t1 = m(lam_, _expm1(-m(lamP_, t)))
        t2 = -m(lamP_, _expm1(-m(lam_, t)))
        tot = add(t1, t2)
        den = sub(lamP_, lam_)
        val = div(m(R, tot), den)
        mag = add(abs(t1), abs(t2))
        amp = _amp(lam_, [lamP_])
    elif row.reaction == "2n":
        if lamP is None:
            raise MachineryError("'2n' row %d without parent half-life" % row.index)
        k = _separate([a, add(c, lamP), lam])
        terms = []
        mag = D0
        for i in range(3):
            others = [k[j] for j in range(3) if j != i]
            d = m(sub(others[0], k[i]), sub(others[1], k[i]))
            term = div(_exp(-m(k[i], t)), d)
            terms.append(term)
            mag = add(mag, m(abs(term), add(_amp(k[i], others), m(k[i], t))))
        tot = add(add(terms[0], terms[1]), terms[2])
        val = m(m(m(R, lam), c), tot)
        # the spreadsheet obtains c as (c + lamP) - lamP (column R minus column N)
        amp = add(D1, div(m(Decimal(2), lamP), c)) if c != 0 else D1
        if c == 0:                      # no capture on the intermediate: nothing is produced
            val, tot, mag = D0, D0, D0
    else:
        ka, kc = _separate([a, add(lam, c)])
        U, V = m(ka, t), m(kc, t)
        s.U, s.V = U, V
        eU, eV = _exp(-U), _exp(-V)
        tot = sub(eU, eV)
        den = sub(kc, ka)
        val = div(m(m(R, lam), tot), den)
        mag = add(m(eU, add(D1, U)), m(eV, add(D1, V)))
        amp = _amp(ka, [kc])
    if tot == 0:
        ksum = D1 if mag == 0 else Decimal("1e60")
    else:
        ksum = div(mag, abs(tot))
    kappa = add(ksum, amp)
    s.kappa_sum = ksum if row.reaction == "2n" else kappa
    if kappa > KAPPA_LIMIT and val != 0:
        raise MachineryError("reference too ill-conditioned at row %d (kappa %s)" % (row.index, kappa))
    if val < 0:
        # exact chain solutions are non-negative; a tiny negative value can only be rounding at 80 digits
        if kappa < KAPPA_LIMIT and abs(val) > Decimal("1e-30") * abs(m(R, mag)):
            raise MachineryError("reference negative at row %d" % row.index)
        val = D0
    s.per_gram = val
    s.kappa = kappa
    return s


def rest_factor(row, rest):
    """2^(-rest/T_half)."""
    r = dec(rest)
    if r == 0:
        return D1
    return _exp(-CTX.divide(CTX.multiply(LN2, r), row.thalf_hrs))


def to_float(x):
    """Nearest double (0.0 on underflow)."""
    try:
        return float(x)
    except OverflowError:
        raise MachineryError("reference value %s exceeds the double range" % x)
