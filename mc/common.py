"""Shared plumbing: accumulator for counts/violations, thread-free fork pmap,
loading of the library under test from VERIF_REPO, float comparison helpers."""
import os, sys, json, pickle, select, math, hashlib, traceback, collections, time

VERIF = os.path.dirname(os.path.dirname(os.path.abspath(__file__)))
REPO = os.environ.get("VERIF_REPO", "/repo")


class MachineryError(Exception):
    """An error of the checking machinery itself (never a property violation)."""


def load_pt():
    """Import periodictable from VERIF_REPO and make sure that is what we got."""
    if sys.path[0] != REPO:
        sys.path.insert(0, REPO)
    import periodictable
    f = os.path.realpath(periodictable.__file__)
    if not f.startswith(os.path.realpath(REPO) + os.sep):
        raise MachineryError("periodictable imported from %s, not from %s" % (f, REPO))
    return periodictable


def jdump(x):
    return json.dumps(x, sort_keys=True, default=repr)


def short_hash(x, n=12):
    return hashlib.sha1(jdump(x).encode()).hexdigest()[:n]


class Acc(object):
    """Accumulates what a (shard of a) run covered.  Mergeable, picklable."""
    MAX_SAMPLES = 12

    def __init__(self):
        self.evaluations = 0
        self.states = 0
        self.transitions = 0
        self.traces = 0
        self.nontrivial = 0
        self.outcomes = collections.Counter()
        self.samples = []
        self.viol = {}         # signature -> {count, case, expected, observed, standalone, detail}
        self.caps = []
        self.exhaustive = True
        self.info = {}         # free-form measured numbers (summed when numeric)
        self.notes = []
        self.vcount = 0        # number of violation reports (all signatures)

    # -- recording
    def sample(self, x):
        if len(self.samples) < self.MAX_SAMPLES:
            self.samples.append(x)

    def count(self, key, n=1):
        self.info[key] = self.info.get(key, 0) + n

    def outcome(self, key, n=1):
        self.outcomes[key] += n

    def violation(self, signature, case, expected=None, observed=None, standalone=None, detail=None):
        rec = dict(signature=signature, case=case, expected=expected, observed=observed,
                   standalone=standalone, detail=detail, count=1)
        self.vcount += 1
        old = self.viol.get(signature)
        if old is None:
            self.viol[signature] = rec
        else:
            n = old["count"] + 1
            if _case_key(rec) < _case_key(old):
                self.viol[signature] = rec
            self.viol[signature]["count"] = n

    def cap(self, what):
        self.caps.append(what)
        self.exhaustive = False

    # -- merging
    def merge(self, other):
        self.evaluations += other.evaluations
        self.states += other.states
        self.transitions += other.transitions
        self.traces += other.traces
        self.nontrivial += other.nontrivial
        self.outcomes.update(other.outcomes)
        for s in other.samples:
            self.sample(s)
        for sig, rec in other.viol.items():
            old = self.viol.get(sig)
            if old is None:
                self.viol[sig] = dict(rec)
            else:
                n = old["count"] + rec["count"]
                if _case_key(rec) < _case_key(old):
                    self.viol[sig] = dict(rec)
                self.viol[sig]["count"] = n
        self.caps += other.caps
        self.exhaustive = self.exhaustive and other.exhaustive
        for k, v in other.info.items():
            if k.startswith("max_"):
                self.info[k] = max(self.info.get(k, v), v)
            elif isinstance(v, (int, float)) and isinstance(self.info.get(k, 0), (int, float)):
                self.info[k] = self.info.get(k, 0) + v
            else:
                self.info[k] = v
        self.notes += other.notes
        self.vcount += other.vcount
        return self


def _case_key(rec):
    s = jdump(rec["case"])
    return (len(s), s)


def pmap(fn, items, jobs=None, label="", always_fork=False):
    """Run fn(item) for every item in forked children (no threads anywhere).
    Returns results in item order.  A child that dies is a machinery error."""
    items = list(items)
    jobs = jobs or int(os.environ.get("VERIF_JOBS", "0")) or os.cpu_count() or 1
    if (jobs <= 1 or len(items) <= 1) and not always_fork:
        return [fn(it) for it in items]
    jobs = max(jobs, 1)
    results = [None] * len(items)
    done = [False] * len(items)
    running = {}   # fd -> (idx, pid, chunks)
    nxt = 0
    sys.stdout.flush(); sys.stderr.flush()
    while nxt < len(items) or running:
        while nxt < len(items) and len(running) < jobs:
            r, w = os.pipe()
            pid = os.fork()
            if pid == 0:
                code = 0
                try:
                    os.close(r)
                    for fd in list(running):
                        try: os.close(fd)
                        except OSError: pass
                    try:
                        out = ("ok", fn(items[nxt]))
                    except BaseException as e:   # report, parent decides
                        out = ("err", "%s\n%s" % (repr(e), traceback.format_exc()))
                    data = pickle.dumps(out, protocol=pickle.HIGHEST_PROTOCOL)
                    with os.fdopen(w, "wb") as f:
                        f.write(data)
                except BaseException:
                    code = 3
                finally:
                    sys.stdout.flush(); sys.stderr.flush()
                    os._exit(code)
            os.close(w)
            running[r] = (nxt, pid, [])
            nxt += 1
        ready, _, _ = select.select(list(running), [], [], 60)
        for fd in ready:
            chunk = os.read(fd, 1 << 20)
            idx, pid, chunks = running[fd]
            if chunk:
                chunks.append(chunk)
                continue
            os.close(fd)
            del running[fd]
            _, status = os.waitpid(pid, 0)
            data = b"".join(chunks)
            if not data:
                raise MachineryError("%s worker %d died (status %d)" % (label, idx, status))
            kind, val = pickle.loads(data)
            if kind == "err":
                raise MachineryError("%s worker %d failed: %s" % (label, idx, val))
            results[idx] = val
            done[idx] = True
    assert all(done)
    return results


def chunks(seq, n):
    """Split seq into n nearly equal interleaved chunks (deterministic)."""
    seq = list(seq)
    n = max(1, min(n, len(seq)))
    return [seq[i::n] for i in range(n)]


def rotate(seq, seed):
    """VERIF_SEED only rotates the order in which an enumeration is walked."""
    seq = list(seq)
    if not seq:
        return seq
    k = seed % len(seq)
    return seq[k:] + seq[:k]


# ---- numeric comparison helpers (see DESIGN section 3)
def isnum(x):
    return isinstance(x, (int, float)) or hasattr(x, "dtype")


def close(a, b, rel=1e-9, abs_=1e-300):
    """True if a and b agree to a relative tolerance (NaN == NaN, None == None)."""
    if a is None or b is None:
        return a is None and b is None
    try:
        a = float(a); b = float(b)
    except TypeError:
        a = complex(a); b = complex(b)
        return close(a.real, b.real, rel, abs_) and close(a.imag, b.imag, rel, abs_)
    if math.isnan(a) or math.isnan(b):
        return math.isnan(a) and math.isnan(b)
    if math.isinf(a) or math.isinf(b):
        return a == b
    return abs(a - b) <= rel * max(abs(a), abs(b)) + abs_


def close_scaled(a, b, scale, rel=1e-12):
    """Agreement of two signed sums relative to the sum of magnitudes of their terms."""
    if a is None or b is None:
        return a is None and b is None
    a = float(a); b = float(b)
    if math.isnan(a) or math.isnan(b):
        return math.isnan(a) and math.isnan(b)
    return abs(a - b) <= rel * max(abs(scale), abs(a), abs(b)) + 1e-300


def fmt(x):
    """Stable printable form of an observation."""
    if isinstance(x, float):
        return repr(x)
    if isinstance(x, BaseException):
        return "EXC:%s:%s" % (type(x).__name__, x)
    return repr(x)


class Timer(object):
    def __init__(self):
        self.t0 = time.time()
    def __call__(self):
        return time.time() - self.t0
