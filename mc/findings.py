"""Known findings: committed list, never written at run time.

An entry {"id", "property", "status": "open"|"fixed", "signatures": [fnmatch patterns], "what", ...}
An observed violation is downgraded to KNOWN-FINDING only when its signature matches an *open*
entry of the same property; "fixed" entries match nothing."""
import os, json, fnmatch
from .common import VERIF

PATH = os.path.join(VERIF, "known_findings.json")


def load():
    if not os.path.exists(PATH):
        return []
    return json.load(open(PATH)).get("findings", [])


def match(prop, signature, findings=None):
    for f in (load() if findings is None else findings):
        if f.get("property") != prop or f.get("status") != "open":
            continue
        for pat in f.get("signatures", []):
            if fnmatch.fnmatchcase(signature, pat):
                return f
    return None
