"""Configuration graph shared by the complete-sweep properties (C06, C07, C20).

Events: pub_lazy (touch every lazy group of the public table), new_T / new_T2 (create a private
table and initialise mass+density), T_groups (initialise every other group on T).  A path is
executed in a fresh forked interpreter; the end state is then swept row by row."""
from .common import MachineryError

LAZY = ["covalent_radius", "crystal_structure", "neutron", "xray", "K_alpha", "magnetic_ff"]

EVENTS = ("pub_lazy", "new_T", "T_groups", "new_T2")

QUICK_PATHS = [(), ("pub_lazy",), ("new_T",), ("pub_lazy", "new_T"), ("new_T", "new_T2"),
               ("new_T", "T_groups", "new_T2", "pub_lazy")]


def all_paths():
    out = [()]
    def ok(p, e):
        if e in p:
            return False
        if e == "T_groups" and "new_T" not in p:
            return False
        if e == "new_T2" and "new_T" not in p:
            return False
        return True
    frontier = [()]
    for _ in range(4):
        nxt = []
        for p in frontier:
            for e in EVENTS:
                if ok(p, e):
                    nxt.append(p + (e,))
        out += nxt
        frontier = nxt
    return out


def apply_event(pt, ev, tables, tag):
    from periodictable import core, mass, density
    if ev == "pub_lazy":
        for name in LAZY:
            getattr(pt.elements.Fe, name, None)
        getattr(pt.elements.Fe[56], "neutron_activation", None)
    elif ev in ("new_T", "new_T2"):
        T = core.PeriodicTable("c06-%s-%s" % (tag, ev))
        mass.init(T)
        density.init(T)
        tables[ev[4:]] = T
    elif ev == "T_groups":
        T = tables["T"]
        from periodictable import nsf, xsf, covalent_radius, crystal_structure, magnetic_ff, activation
        nsf.init(T); xsf.init(T); xsf.init_spectral_lines(T); covalent_radius.init(T)
        crystal_structure.init(T); magnetic_ff.init(T); activation.init(T)
    else:
        raise MachineryError(ev)


def snippet(path, label, code):
    lines = ["import periodictable as pt", "from periodictable import core, mass, density",
             "tables = {'public': pt.elements}"]
    for ev in path:
        if ev == "pub_lazy":
            lines.append("for n in %r: getattr(pt.elements.Fe, n, None)" % (LAZY,))
            lines.append("getattr(pt.elements.Fe[56], 'neutron_activation', None)")
        elif ev in ("new_T", "new_T2"):
            lines.append("X = core.PeriodicTable(%r); mass.init(X); density.init(X); tables[%r] = X" % (ev, ev[4:]))
        elif ev == "T_groups":
            lines.append("from periodictable import nsf, xsf, covalent_radius, crystal_structure, magnetic_ff, activation")
            lines.append("X = tables['T']; nsf.init(X); xsf.init(X); xsf.init_spectral_lines(X); covalent_radius.init(X); "
                         "crystal_structure.init(X); magnetic_ff.init(X); activation.init(X)")
    lines.append("T = tables[%r]" % label)
    lines.append(code)
    return "\n".join(lines) + "\n"


