"""Configuration graph shared by the complete-sweep properties (C06, C07, C20).

Events: pub_lazy (touch every lazy group of the public table), new_T / new_T2 (create a private
table and initialise mass+density), T_groups (initialise every other group on T).  A path is
executed in a fresh forked interpreter; the end state is then swept row by row."""
from .common import MachineryError

LAZY = ["covalent_radius", "crystal_structure", "neutron", "xray", "K_alpha", "magnetic_ff"]

EVENTS = ("pub_lazy", "new_T", "T_groups", "new_T2")
# two more events, used in fixed paths only (they customise data, so the table they touch is no longer
# swept; every OTHER table must still serve exactly the embedded tables):
#   T_custom   assign to / mutate in place the per-atom data of every group of T
#   pub_custom customise masses, densities and abundances of the public table (as the guide describes)

QUICK_PATHS = [(), ("pub_lazy",), ("new_T",), ("pub_lazy", "new_T"), ("new_T", "new_T2"),
               ("new_T", "T_groups", "new_T2", "pub_lazy"),
               ("new_T", "T_groups", "T_custom", "new_T2", "pub_lazy"),
               ("pub_lazy", "new_T", "T_groups", "T_custom"),
               ("pub_custom", "new_T", "T_groups")]

CUSTOMISED = {"T_custom": "T", "pub_custom": "public"}      # event -> table whose values are no longer judged


def judged_tables(path, live):
    """live: [(label, table)] -> those whose data no event of the path customised."""
    skip = set(CUSTOMISED[e] for e in path if e in CUSTOMISED)
    return [(l, t) for l, t in live if l not in skip]


def all_paths():
    out = [()]
    def ok(p, e):
        if e in p:
            return False
        if e == "T_groups" and "new_T" not in p:
            return False
        if e == "new_T2" and "new_T" not in p:
            return False
        return True
    frontier = [()]
    for _ in range(4):
        nxt = []
        for p in frontier:
            for e in EVENTS:
                if ok(p, e):
                    nxt.append(p + (e,))
        out += nxt
        frontier = nxt
    return out


def apply_event(pt, ev, tables, tag):
    from periodictable import core, mass, density
    if ev == "pub_lazy":
        for name in LAZY:
            getattr(pt.elements.Fe, name, None)
        getattr(pt.elements.Fe[56], "neutron_activation", None)
    elif ev in ("new_T", "new_T2"):
        T = core.PeriodicTable("c06-%s-%s" % (tag, ev))
        mass.init(T)
        density.init(T)
        tables[ev[4:]] = T
    elif ev == "T_custom":
        T = tables["T"]
        T.Fe._mass = 1.0; T.H._density = 9.0; T.Fe[56]._mass = 55.0; T.U[238]._abundance = 1.0
        T.Fe.covalent_radius = 9.99; T.Cu.covalent_radius_uncertainty = 0.5
        T.Fe.crystal_structure['a'] = 99.0; T.Cu.crystal_structure = {'symmetry': 'verif'}
        T.Fe.neutron.b_c = 99.0; T.Ni[58].neutron.absorption = 1e3; T.Sm.neutron.nsf_table[1][0] = 7.0
        T.Li[6].neutron.bp_i = 5.0; T.H.neutron.b_c_complex = 1j; T.H[1].nuclear_spin = '9/2'
        T.Fe[58].neutron_activation[0].thermalXS = 99.0
        T.Fe.xray.newfield = 5; T.Cu.xray.sftable[1][10] = 1234.5
        T.Cu.K_alpha = 9.99; T.Fe.K_beta1 = 8.88
        T.Fe.magnetic_ff[2].j0 = (1.0, 0.0, 0.0, 0.0, 0.0, 0.0, 0.0); T.Ni.magnetic_ff[9] = T.Fe.magnetic_ff[3]
        del T.Co.magnetic_ff[2].j4
    elif ev == "pub_custom":
        P = pt.elements
        P.H._mass = 1.0; P.H._mass_unc = 0.5; P.Fe[56]._mass = 55.0; P.Fe._density = 1.0; P.U[238]._abundance = 50.0
        P.Ar._mass_unc = 1.0; P.O[18]._abundance = 3.0; P.Og._density = 2.0
    elif ev == "T_groups":
        T = tables["T"]
        from periodictable import nsf, xsf, covalent_radius, crystal_structure, magnetic_ff, activation
        nsf.init(T); xsf.init(T); xsf.init_spectral_lines(T); covalent_radius.init(T)
        crystal_structure.init(T); magnetic_ff.init(T); activation.init(T)
    else:
        raise MachineryError(ev)


def snippet(path, label, code):
    lines = ["import periodictable as pt", "from periodictable import core, mass, density",
             "tables = {'public': pt.elements}"]
    for ev in path:
        if ev == "pub_lazy":
            lines.append("for n in %r: getattr(pt.elements.Fe, n, None)" % (LAZY,))
            lines.append("getattr(pt.elements.Fe[56], 'neutron_activation', None)")
        elif ev in ("new_T", "new_T2"):
            lines.append("X = core.PeriodicTable(%r); mass.init(X); density.init(X); tables[%r] = X" % (ev, ev[4:]))
        elif ev == "T_custom":
            lines.append("X = tables['T']; X.Fe._mass = 1.0; X.H._density = 9.0; X.Fe.covalent_radius = 9.99; "
                         "X.Fe.crystal_structure['a'] = 99.0; X.Fe.neutron.b_c = 99.0; X.Sm.neutron.nsf_table[1][0] = 7.0; "
                         "X.Cu.K_alpha = 9.99; X.Fe.magnetic_ff[2].j0 = (1.0, 0, 0, 0, 0, 0, 0); del X.Co.magnetic_ff[2].j4  # ... (mc/configs.py)")
        elif ev == "pub_custom":
            lines.append("P = pt.elements; P.H._mass = 1.0; P.H._mass_unc = 0.5; P.Fe[56]._mass = 55.0; P.Fe._density = 1.0; "
                         "P.U[238]._abundance = 50.0; P.Ar._mass_unc = 1.0; P.O[18]._abundance = 3.0; P.Og._density = 2.0")
        elif ev == "T_groups":
            lines.append("from periodictable import nsf, xsf, covalent_radius, crystal_structure, magnetic_ff, activation")
            lines.append("X = tables['T']; nsf.init(X); xsf.init(X); xsf.init_spectral_lines(X); covalent_radius.init(X); "
                         "crystal_structure.init(X); magnetic_ff.init(X); activation.init(X)")
    lines.append("T = tables[%r]" % label)
    lines.append(code)
    return "\n".join(lines) + "\n"


