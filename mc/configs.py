"""Configuration graph shared by the complete-sweep properties (C06, C07, C20).

Events: pub_lazy (touch every lazy group of the public table), new_T / new_T2 (create a private
table and initialise mass+density), T_groups (initialise every other group on T).  A path is
executed in a fresh forked interpreter; the end state is then swept row by row.

Added later (additive; the events and paths above keep their meaning):
* OPTION events - the optional arguments of every init function and a second init:
    new_R       create a private table R and initialise mass+density with reload=True from the start
    R_groups    initialise every other group on R with reload=True
    T_again     call every init function already applied to T a second time with the default arguments
    T_reload    call every init function already applied to T again with reload=True
    pub_again / pub_reload   the same two on the public table (mass, density and every lazily loaded group)
    pub_init    explicit init (default arguments) of every group on the public table, loaded lazily before or not
* FIRST-ACCESS events "first:<kind>" (optionally "first:<kind>@<attribute>", default attribute 'neutron'): the first
  access of a lazily loaded attribute of the public table goes through an atom object of the given kind
  (FIRST_KINDS).  Meant for the START of a path (a fresh process).  The object served by that very access is kept in
  the optional `obs` dictionary of apply_event (obs["first"]) so that a check can judge it.
* atom_routes(): every access route of a table to its elements and nuclides.
* CUSTOMISE-THEN-RELOAD events (round 6): a caller replaces entries of a group by a custom dataset and later goes back
  to the stock values with <module>.init(table, reload=True):
    T_dirty / pub_dirty           customise every group that is initialised on T / on the public table (DIRTY_SRC)
    T_dirty:<g> / pub_dirty:<g>   customise the one group <g> of ORDER
    T_reload:<g> / pub_reload:<g> call the init function of the one group <g> with reload=True
                                  (T_reload / pub_reload, from the option events, reload every initialised group)
  Each group is customised at an entry WITH a value in its table, at entries the table lists as UNKNOWN (density None,
  structure None, an isotope outside the composition table, an element without a standard atomic weight), at isotopes,
  by assignment, by in-place change and by deletion.  A table is not judged while it is customised; after the reload
  of every customised group it is judged again and must serve exactly the embedded tables (judged_tables()).
  NOT customised: atoms that have no row at all in the table of the group (a covalent radius for Bk, a structure for
  Rf, an emission line for H, a neutron record for Po or for a single-isotope element): the stock loaders write their
  rows over the table and leave other entries alone, and no text says that reload=True removes what a custom dataset
  added."""
from .common import MachineryError

LAZY = ["covalent_radius", "crystal_structure", "neutron", "xray", "K_alpha", "magnetic_ff"]

GROUPS = ("mass", "density", "neutron", "xray", "covalent_radius", "crystal_structure", "magnetic_ff", "neutron_activation")

EVENTS = ("pub_lazy", "new_T", "T_groups", "new_T2")
# two more events, used in fixed paths only (they customise data, so the table they touch is no longer
# swept; every OTHER table must still serve exactly the embedded tables):
#   T_custom   assign to / mutate in place the per-atom data of every group of T
#   pub_custom customise masses, densities and abundances of the public table (as the guide describes)

QUICK_PATHS = [(), ("pub_lazy",), ("new_T",), ("pub_lazy", "new_T"), ("new_T", "new_T2"),
               ("new_T", "T_groups", "new_T2", "pub_lazy"),
               ("new_T", "T_groups", "T_custom", "new_T2", "pub_lazy"),
               ("pub_lazy", "new_T", "T_groups", "T_custom"),
               ("pub_custom", "new_T", "T_groups")]

OPTION_EVENTS = ("new_R", "R_groups", "T_again", "T_reload", "pub_again", "pub_reload", "pub_init")

QUICK_PATHS += [("new_R",), ("new_R", "R_groups"),
                ("new_T", "T_again"), ("new_T", "T_reload"),
                ("new_T", "T_groups", "T_again"), ("new_T", "T_groups", "T_reload"),
                ("pub_again",), ("pub_reload",), ("pub_lazy", "pub_again"), ("pub_lazy", "pub_reload"),
                ("pub_init",), ("pub_init", "pub_reload"), ("pub_reload", "new_T", "T_groups", "pub_lazy"),
                ("new_R", "R_groups", "new_T", "T_groups", "T_reload", "pub_lazy")]

# kind -> expression of the atom whose attribute is read first (P is the public table)
FIRST_KINDS = [
    ("element", "P.Fe"), ("isotope", "P.Ni[62]"), ("ion", "P.Fe.ion[2]"), ("isotope-ion", "P.Ni[58].ion[2]"),
    ("D", "P.D"), ("T", "P.T"), ("D-ion", "P.D.ion[1]"), ("neutron", "P[0]"),
    ("absent-isotope", "P.H[6]"), ("absent-element", "P.Po"),
    ("single-isotope-element", "P.Au"), ("sole-isotope", "P.Au[197]"), ("no-element-row", "P.Pu"),
    ("energy-isotope", "P.Gd[157]"), ("energy-element", "P.Sm"), ("derived-energy-element", "P.Lu"),
    ("library", None),            # the first access is made by the library itself: neutron_sld of a compound with D
]
FIRST_EVENTS = tuple("first:" + k for k, _ in FIRST_KINDS)


def first_paths(tier="quick"):
    """Paths that begin with a first-access event.  quick: every kind alone and every kind followed by a private
    table with all groups; thorough: every kind in front of every path of all_paths()."""
    if tier == "quick":
        return [(e,) for e in FIRST_EVENTS] + [(e, "new_T", "T_groups") for e in FIRST_EVENTS]
    return [(e,) + p for e in FIRST_EVENTS for p in base_paths()]


def full_tables(path, tables):
    """[(label, table)] of the private tables on which every group was initialised by the path."""
    out = []
    if "T_groups" in path:
        out.append(("T", tables["T"]))
    if "R_groups" in path:
        out.append(("R", tables["R"]))
    return out


CUSTOMISED = {"T_custom": "T", "pub_custom": "public"}      # event -> table whose values are no longer judged


def dirty_event(ev):
    """'T_dirty', 'pub_dirty:mass', 'T_reload:neutron', 'pub_reload' -> (label, 'dirty' | 'reload', group or None);
    other events -> None."""
    head, _, group = ev.partition(":")
    who, _, what = head.partition("_")
    if who in ("T", "pub") and what in ("dirty", "reload") and (not group or group in GROUPS):
        return ("T" if who == "T" else "public"), what, (group or None)
    return None


def judged_tables(path, live):
    """live: [(label, table)] -> those that serve the stock data at the end of the path: no T_custom / pub_custom
    event touched them, and every group customised by a *_dirty event was reloaded afterwards."""
    skip = set(CUSTOMISED[e] for e in path if e in CUSTOMISED)
    dirty = {}
    for e in path:
        d = dirty_event(e)
        if d is None:
            continue
        label, what, group = d
        cur = dirty.setdefault(label, set())
        if what == "dirty":
            cur.update([group] if group else GROUPS)
        elif group:
            cur.discard(group)
        else:
            cur.clear()          # T_reload / pub_reload: every initialised group (a group initialised later is not dirty)
    skip.update(l for l, groups in dirty.items() if groups)
    return [(l, t) for l, t in live if l not in skip]


def restored_labels(path):
    """Labels of the tables that a *_dirty event of the path customised (judged_tables() says whether they were
    reloaded afterwards); a check may mark what it finds on such a table as found after customise-and-reload."""
    return set(d[0] for d in map(dirty_event, path) if d is not None and d[1] == "dirty")


RELOADED = ":after-customise-and-reload"


def fold_reloaded(acc, suffix=RELOADED):
    """After all paths were merged: a signature '<cause><suffix>' (found on a table that was customised and reloaded)
    whose plain '<cause>' was ALSO found on a table that never was customised is not a matter of the reload; its
    occurrences are added to the plain signature.  What remains with the suffix was seen after a reload only."""
    for sig in sorted(acc.viol):
        if sig.endswith(suffix) and sig[:-len(suffix)] in acc.viol:
            acc.viol[sig[:-len(suffix)]]["count"] += acc.viol.pop(sig)["count"]


def base_paths():
    out = [()]
    def ok(p, e):
        if e in p:
            return False
        if e == "T_groups" and "new_T" not in p:
            return False
        if e == "new_T2" and "new_T" not in p:
            return False
        return True
    frontier = [()]
    for _ in range(4):
        nxt = []
        for p in frontier:
            for e in EVENTS:
                if ok(p, e):
                    nxt.append(p + (e,))
        out += nxt
        frontier = nxt
    return out


def _option_ok(p, e):
    if e in ("T_again", "T_reload"):
        return "new_T" in p
    if e == "R_groups":
        return "new_R" in p
    return True


def all_paths():
    """Thorough graph: every ordering of EVENTS up to length 4 (as before), every fixed path of QUICK_PATHS, and
    every ordering of up to three EVENTS with ONE option event inserted at every position where it is enabled
    (R_groups only together with new_R directly before it)."""
    out = list(base_paths())
    seen = set(out)
    def add(p):
        if p not in seen:
            seen.add(p)
            out.append(p)
    for p in QUICK_PATHS:
        add(tuple(p))
    for p in base_paths():
        if len(p) > 3:
            continue
        for e in OPTION_EVENTS:
            for i in range(len(p) + 1):
                if e == "R_groups":
                    q = p[:i] + ("new_R", "R_groups") + p[i:]
                else:
                    q = p[:i] + (e,) + p[i:]
                    if not _option_ok(q[:i], e):
                        continue
                add(q)
    for p in dirty_paths("thorough"):
        add(p)
    return out


# Source text of the added events: executed by apply_event and quoted verbatim by snippet().
# Names available: pt, P (public table), tables, core, mass, density, NAME (a fresh table name).
_INITS = ("import periodictable.nsf, periodictable.xsf, periodictable.covalent_radius, periodictable.crystal_structure, "
          "periodictable.magnetic_ff, periodictable.activation\n"
          "INITS = dict(mass=pt.mass.init, density=pt.density.init, neutron=pt.nsf.init, xray=pt.xsf.init, "
          "covalent_radius=pt.covalent_radius.init, crystal_structure=pt.crystal_structure.init, "
          "magnetic_ff=pt.magnetic_ff.init, neutron_activation=pt.activation.init)\n"
          "ORDER = ['mass', 'density', 'neutron', 'xray', 'covalent_radius', 'crystal_structure', 'magnetic_ff', "
          "'neutron_activation']\n")
_REINIT = (_INITS +
           "applied = [n for n in ORDER if n in X.properties]\n"
           "for n in applied: INITS[n](X%s)\n"
           "if 'xray' in applied: pt.xsf.init_spectral_lines(X)\n")
EVENT_SRC = {
    "new_R": "X = core.PeriodicTable(NAME); mass.init(X, reload=True); density.init(X, reload=True); tables['R'] = X\n",
    "R_groups": (_INITS + "X = tables['R']\n"
                 "for n in ORDER[2:]: INITS[n](X, reload=True)\n"
                 "pt.xsf.init_spectral_lines(X)\n"),
    "T_again": "X = tables['T']\n" + _REINIT % "",
    "T_reload": "X = tables['T']\n" + _REINIT % ", reload=True",
    "pub_again": "X = P\n" + _REINIT % "",
    "pub_reload": "X = P\n" + _REINIT % ", reload=True",
    "pub_init": (_INITS + "for n in ORDER: INITS[n](P)\n"
                 "pt.xsf.init_spectral_lines(P)\n"),
}


# What a custom dataset does to the entries of one group of table X (see the module docstring for the classes).
DIRTY_SRC = {
    "mass": ("X.Fe._mass, X.Fe._mass_unc = 1.0, 0.5; X.Ar._mass, X.Ar._mass_unc = 40.0, 1.0          # atomic-weight rows\n"
             "X.Tc._mass, X.Tc._mass_unc = 1.0, 0.5; X.Og._mass = 300.0     # no standard atomic weight: isotope-table column\n"
             "X.Fe[56]._mass, X.Fe[56]._mass_unc = 55.0, 1.0; X.D._mass = 3.0; X.Og[294]._mass = 300.0      # isotopes\n"
             "X.U[238]._abundance, X.U[238]._abundance_unc = 50.0, 1.0; X.O[18]._abundance = 3.0       # composition rows\n"
             "X.H[3]._abundance = 1.0; X.Tc[98]._abundance, X.Tc[98]._abundance_unc = 100.0, 1.0     # outside the composition table\n"
             "X[0]._mass = 2.0; X[0][1]._mass = 2.0; X[0][1]._abundance = 50.0                         # the neutron\n"),
    "density": ("X.Fe._density, X.Fe.density_caveat = 1.0, 'custom'; X.H._density = 9.0                # rows with a value\n"
                "X.At._density, X.At.density_caveat = 6.35, 'custom'; X.Og._density = 2.0; X.Cf._density = 15.1\n"
                "X[0]._density = 1e14                                                                   # rows listed as unknown\n"
                "X.Cu._density = None                                                                   # a value removed\n"),
    "neutron": ("N = pt.nsf.Neutron(); N.__dict__.update(vars(X.Ni.neutron)); N.b_c = 99.0; X.Fe.neutron = N   # record replaced\n"
                "X.Ni[58].neutron.b_c = 99.0; X.Ni[58].neutron.absorption = 1e3; X.Ni[58].neutron.abundance = 1.0\n"
                "X.H[1].nuclear_spin = '9/2'; X.H.neutron.b_c_complex = 1j; X.Li[6].neutron.bp_i = 5.0; X.Sm.neutron.b_c_i = 1.0\n"
                "X.Xe.neutron.total = 1.0; X.Eu[151].neutron.b_c = 1.0; X.Kr[83].neutron.b_c = 1.0; X.Kr[83].neutron.total = 1.0     # blank cells\n"
                "w, b = X.Sm.neutron.nsf_table; X.Sm.neutron.nsf_table = (w, 2*b); X.Gd[157].neutron.nsf_table = (w, b)\n"
                "X.Lu.neutron.nsf_table = X.Lu[176].neutron.nsf_table; del X.Dy[164].neutron.nsf_table\n"
                "del X.Fe[56].neutron; X.D.neutron = X.H[1].neutron\n"),
    "xray": ("X.Cu.K_alpha, X.Cu.K_beta1 = 9.99, 8.88; X.Fe.K_beta1 = 8.88; X.Mo.K_alpha = None; del X.Ag.K_alpha\n"),
    "covalent_radius": ("X.Fe.covalent_radius = 9.99; X.Cu.covalent_radius_uncertainty = 0.5; X.C.covalent_radius = 0.69\n"
                        "X.He.covalent_radius_uncertainty = 0.5; X.H.covalent_radius = None; X.Cm.covalent_radius = 9.99\n"),
    "crystal_structure": ("X.Fe.crystal_structure['a'] = 99.0; X.Cu.crystal_structure = {'symmetry': 'verif'}\n"
                          "X.Ni.crystal_structure = None; X.Tb.crystal_structure = X.Th.crystal_structure; del X.Co.crystal_structure\n"
                          "X.Pm.crystal_structure = {'symmetry': 'verif'}; X.At.crystal_structure = dict(X.Po.crystal_structure)\n"
                          "X.Lr.crystal_structure = {'symmetry': 'verif'}; X[0].crystal_structure = {'symmetry': 'verif'}   # slots listed as None\n"),
    "magnetic_ff": ("X.Fe.magnetic_ff[2].j0 = (1.0, 0.0, 0.0, 0.0, 0.0, 0.0, 0.0); del X.Co.magnetic_ff[2].j4\n"
                    "X.Ni.magnetic_ff = {}; del X.Mn.magnetic_ff[2]; X.Cr.magnetic_ff[1].j2 = X.Cr.magnetic_ff[2].j2\n"),
    "neutron_activation": ("X.Fe[58].neutron_activation[0].thermalXS = 99.0; del X.Co[59].neutron_activation\n"),
}
assert sorted(DIRTY_SRC) == sorted(GROUPS)


def _dirty_src(who, group):
    x = "X = tables['T']\n" if who == "T" else "X = P\n"
    if group:
        return (x + "if %r not in X.properties: raise RuntimeError('group %s is not initialised on this table')\n" % (group, group)
                + DIRTY_SRC[group])
    return x + "".join("if %r in X.properties:\n%s" % (g, "".join("    " + ln + "\n" for ln in DIRTY_SRC[g].rstrip("\n").split("\n")))
                       for g in GROUPS)


def _reload_src(who, group):
    x = "X = tables['T']\n" if who == "T" else "X = P\n"
    return (_INITS + x + "INITS[%r](X, reload=True)\n" % group
            + ("pt.xsf.init_spectral_lines(X)\n" if group == "xray" else ""))


for _who in ("T", "pub"):
    EVENT_SRC["%s_dirty" % _who] = _dirty_src(_who, None)
    for _g in GROUPS:
        EVENT_SRC["%s_dirty:%s" % (_who, _g)] = _dirty_src(_who, _g)
        EVENT_SRC["%s_reload:%s" % (_who, _g)] = _reload_src(_who, _g)

DIRTY_QUICK_GROUPS = ("mass", "density", "neutron")          # the groups of C06 and C07 (C20 adds its own, see c20.py)


def dirty_paths(tier="quick", groups=None):
    """Customise-then-reload paths.  quick: all groups at once on a table with mass+density only, on a table with
    every group, on the public table as imported and after every lazy group was loaded (each followed by other events:
    a later private table, the public table touched afterwards), and every group of `groups` customised and reloaded
    ALONE on a private and on the public table.  thorough: in addition the pair (dirty, reload) of T and of the public
    table inserted at every position of every ordering of up to three EVENTS, adjacent and with the reload at the end,
    and every group alone."""
    groups = DIRTY_QUICK_GROUPS if groups is None else groups
    out = [("new_T", "T_dirty", "T_reload"),
           ("new_T", "T_groups", "T_dirty", "T_reload", "new_T2", "pub_lazy"),
           ("pub_dirty", "pub_reload", "new_T"),
           ("pub_lazy", "pub_dirty", "pub_reload", "new_T", "T_groups")]
    def add(p):
        if p not in out:
            out.append(p)
    for g in (GROUPS if tier != "quick" else groups):
        add(("new_T", "T_groups", "T_dirty:" + g, "T_reload:" + g))
        add(("pub_lazy", "pub_dirty:" + g, "pub_reload:" + g))
    if tier != "quick":
        for p in base_paths():
            if len(p) > 3:
                continue
            for i in range(len(p) + 1):
                if "new_T" in p[:i]:
                    add(p[:i] + ("T_dirty", "T_reload") + p[i:])
                    add(p[:i] + ("T_dirty",) + p[i:] + ("T_reload",))
                add(p[:i] + ("pub_dirty", "pub_reload") + p[i:])
                add(p[:i] + ("pub_dirty",) + p[i:] + ("pub_reload",))
    return out


QUICK_PATHS += dirty_paths("quick")


def first_event(ev):
    """'first:<kind>[@attr]' -> (kind, attr, atom expression or None)."""
    body = ev[len("first:"):]
    kind, _, attr = body.partition("@")
    expr = dict(FIRST_KINDS).get(kind, "?")
    if expr == "?":
        raise MachineryError(ev)
    return kind, attr or "neutron", expr


def _first_src(ev):
    kind, attr, expr = first_event(ev)
    if expr is None:
        return "first = pt.neutron_sld('D2O', density=1.1, wavelength=4.75)\n"
    return "first = getattr(%s, %r)\n" % (expr, attr)


def _run_src(src, pt, tables, name):
    from periodictable import core, mass, density
    ns = dict(pt=pt, P=pt.elements, tables=tables, core=core, mass=mass, density=density, NAME=name)
    exec(compile(src, "<configuration event>", "exec"), ns)
    return ns


def apply_event(pt, ev, tables, tag, obs=None):
    from periodictable import core, mass, density
    if ev in EVENT_SRC:
        _run_src(EVENT_SRC[ev], pt, tables, "c06-%s-%s" % (tag, ev))
    elif ev.startswith("first:"):
        kind, attr, expr = first_event(ev)
        rec = dict(kind=kind, attr=attr, expr=expr, event=ev)
        try:
            rec["value"] = _run_src(_first_src(ev), pt, tables, None)["first"]
        except Exception as e:
            if obs is None:
                raise
            rec["error"] = "%s: %s" % (type(e).__name__, e)
        if obs is not None:
            obs["first"] = rec
    elif ev == "pub_lazy":
        for name in LAZY:
            getattr(pt.elements.Fe, name, None)
        getattr(pt.elements.Fe[56], "neutron_activation", None)
    elif ev in ("new_T", "new_T2"):
        T = core.PeriodicTable("c06-%s-%s" % (tag, ev))
        mass.init(T)
        density.init(T)
        tables[ev[4:]] = T
    elif ev == "T_custom":
        T = tables["T"]
        T.Fe._mass = 1.0; T.H._density = 9.0; T.Fe[56]._mass = 55.0; T.U[238]._abundance = 1.0
        T.Fe.covalent_radius = 9.99; T.Cu.covalent_radius_uncertainty = 0.5
        T.Fe.crystal_structure['a'] = 99.0; T.Cu.crystal_structure = {'symmetry': 'verif'}
        T.Fe.neutron.b_c = 99.0; T.Ni[58].neutron.absorption = 1e3; T.Sm.neutron.nsf_table[1][0] = 7.0
        T.Li[6].neutron.bp_i = 5.0; T.H.neutron.b_c_complex = 1j; T.H[1].nuclear_spin = '9/2'
        T.Fe[58].neutron_activation[0].thermalXS = 99.0
        T.Fe.xray.newfield = 5; T.Cu.xray.sftable[1][10] = 1234.5
        T.Cu.K_alpha = 9.99; T.Fe.K_beta1 = 8.88
        T.Fe.magnetic_ff[2].j0 = (1.0, 0.0, 0.0, 0.0, 0.0, 0.0, 0.0); T.Ni.magnetic_ff[9] = T.Fe.magnetic_ff[3]
        del T.Co.magnetic_ff[2].j4
    elif ev == "pub_custom":
        P = pt.elements
        P.H._mass = 1.0; P.H._mass_unc = 0.5; P.Fe[56]._mass = 55.0; P.Fe._density = 1.0; P.U[238]._abundance = 50.0
        P.Ar._mass_unc = 1.0; P.O[18]._abundance = 3.0; P.Og._density = 2.0
    elif ev == "T_groups":
        T = tables["T"]
        from periodictable import nsf, xsf, covalent_radius, crystal_structure, magnetic_ff, activation
        nsf.init(T); xsf.init(T); xsf.init_spectral_lines(T); covalent_radius.init(T)
        crystal_structure.init(T); magnetic_ff.init(T); activation.init(T)
    else:
        raise MachineryError(ev)


def snippet(path, label, code):
    lines = ["import periodictable as pt", "from periodictable import core, mass, density",
             "tables = {'public': pt.elements}"]
    lines.append("P = pt.elements")
    for ev in path:
        if ev in EVENT_SRC:
            lines.append("NAME = %r" % ev)
            lines.append(EVENT_SRC[ev].rstrip("\n"))
        elif ev.startswith("first:"):
            lines.append(_first_src(ev).rstrip("\n") + "    # the first access of this process")
        elif ev == "pub_lazy":
            lines.append("for n in %r: getattr(pt.elements.Fe, n, None)" % (LAZY,))
            lines.append("getattr(pt.elements.Fe[56], 'neutron_activation', None)")
        elif ev in ("new_T", "new_T2"):
            lines.append("X = core.PeriodicTable(%r); mass.init(X); density.init(X); tables[%r] = X" % (ev, ev[4:]))
        elif ev == "T_custom":
            lines.append("X = tables['T']; X.Fe._mass = 1.0; X.H._density = 9.0; X.Fe.covalent_radius = 9.99; "
                         "X.Fe.crystal_structure['a'] = 99.0; X.Fe.neutron.b_c = 99.0; X.Sm.neutron.nsf_table[1][0] = 7.0; "
                         "X.Cu.K_alpha = 9.99; X.Fe.magnetic_ff[2].j0 = (1.0, 0, 0, 0, 0, 0, 0); del X.Co.magnetic_ff[2].j4  # ... (mc/configs.py)")
        elif ev == "pub_custom":
            lines.append("P = pt.elements; P.H._mass = 1.0; P.H._mass_unc = 0.5; P.Fe[56]._mass = 55.0; P.Fe._density = 1.0; "
                         "P.U[238]._abundance = 50.0; P.Ar._mass_unc = 1.0; P.O[18]._abundance = 3.0; P.Og._density = 2.0")
        elif ev == "T_groups":
            lines.append("from periodictable import nsf, xsf, covalent_radius, crystal_structure, magnetic_ff, activation")
            lines.append("X = tables['T']; nsf.init(X); xsf.init(X); xsf.init_spectral_lines(X); covalent_radius.init(X); "
                         "crystal_structure.init(X); magnetic_ff.init(X); activation.init(X)")
    lines.append("T = tables[%r]" % label)
    lines.append(code)
    return "\n".join(lines) + "\n"


def atom_routes(pt, T, label):
    """Every access route of table T to its elements and nuclides.

    Yields (route class, key, python expression in terms of T / pt, canonical object, thunk -> object served by the
    route).  The canonical object is T[Z] for an element and T[Z][A] for a nuclide (what the row sweeps read).  The
    routes of one atom are yielded 'primary first': a route whose class ends in '*' is derived from the preceding
    primary route of the same atom (symbol('D') reads the attribute D), so a caller may skip the derived routes of an
    atom whose primary route already failed.  Nothing here mutates the table (add_isotope is only called for mass
    numbers that exist)."""
    public = label == "public"
    els = list(T)
    for pos, el in enumerate(els):
        Z, sym, name = el.number, el.symbol, el.name
        canon = T[Z]
        yield ("iteration", [Z], "list(T)[%d]" % pos, canon, (lambda el=el: el))
        yield ("attribute", [Z], "T.%s" % sym, canon, (lambda sym=sym: getattr(T, sym)))
        yield ("symbol()*", [Z], "T.symbol(%r)" % sym, canon, (lambda sym=sym: T.symbol(sym)))
        yield ("isotope()*", [Z], "T.isotope(%r)" % sym, canon, (lambda sym=sym: T.isotope(sym)))
        yield ("name()", [Z], "T.name(%r)" % name, canon, (lambda name=name: T.name(name)))
        if public:
            yield ("module-export", [Z], "pt.%s" % sym, canon, (lambda sym=sym: getattr(pt, sym)))
            yield ("module-export", [Z], "pt.%s" % name, canon, (lambda name=name: getattr(pt, name)))
        served = dict((iso.isotope, iso) for iso in el)
        for A in el.isotopes:
            c = el[A]
            yield ("isotope-iteration", [Z, A], "[i for i in T[%d] if i.isotope == %d][0]" % (Z, A), c,
                   (lambda A=A, served=served: served[A]))
            yield ("attribute-index", [Z, A], "T.%s[%d]" % (sym, A), c, (lambda sym=sym, A=A: getattr(T, sym)[A]))
            yield ("isotope()", [Z, A], "T.isotope('%d-%s')" % (A, sym), c,
                   (lambda sym=sym, A=A: T.isotope("%d-%s" % (A, sym))))
            yield ("add_isotope-existing", [Z, A], "T[%d].add_isotope(%d)" % (Z, A), c,
                   (lambda el=el, A=A: el.add_isotope(A)))
            if c.ion is not None and el.ions:
                q = el.ions[0]
                yield ("ion-parent", [Z, A], "T[%d][%d].ion[%d].element" % (Z, A, q), c,
                       (lambda c=c, q=q: c.ion[q].element))
        if el.ions:
            q = el.ions[0]
            yield ("ion-parent", [Z], "T[%d].ion[%d].element" % (Z, q), canon, (lambda el=el, q=q: el.ion[q].element))
    # the two specially named nuclides
    for sym, name, A in (("D", "deuterium", 2), ("T", "tritium", 3)):
        c = T[1][A]
        yield ("special-name", [1, A], "T.%s" % sym, c, (lambda sym=sym: getattr(T, sym)))
        yield ("symbol()*", [1, A], "T.symbol(%r)" % sym, c, (lambda sym=sym: T.symbol(sym)))
        yield ("isotope()*", [1, A], "T.isotope(%r)" % sym, c, (lambda sym=sym: T.isotope(sym)))
        yield ("name()*", [1, A], "T.name(%r)" % name, c, (lambda name=name: T.name(name)))
        if public:
            yield ("module-export", [1, A], "pt.%s" % sym, c, (lambda sym=sym: getattr(pt, sym)))
            yield ("module-export", [1, A], "pt.%s" % name, c, (lambda name=name: getattr(pt, name)))
