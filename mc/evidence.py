"""Evidence writer and validator (schema: /root/.vp/EVIDENCE.schema.json)."""
import os, json, subprocess, shutil
from .common import VERIF, MachineryError

SCHEMA = "/root/.vp/EVIDENCE.schema.json"
LEVELS = ("exploration", "fault_enumeration", "model_checking", "proof", "translation_validation", "other")


def structural_check(ev):
    """Hand-written fallback for the parts of the schema we rely on."""
    for k in ("property_id", "tier", "seed", "level", "coverage", "wall_s"):
        if k not in ev:
            raise MachineryError("evidence lacks %s" % k)
    if ev["tier"] not in ("quick", "thorough") or ev["level"] not in LEVELS:
        raise MachineryError("bad tier/level in evidence")
    if not isinstance(ev["seed"], int):
        raise MachineryError("seed must be an integer")
    cov = ev["coverage"]
    if ev["level"] == "model_checking":
        for k in ("states", "transitions", "traces_validated_against_impl", "samples"):
            if k not in cov:
                raise MachineryError("model_checking evidence lacks coverage.%s" % k)
        if cov["states"] < 1 or cov["transitions"] < 1 or not cov["samples"]:
            raise MachineryError("model_checking evidence with empty exploration")
    else:
        for k in ("evaluations", "distinct_nontrivial", "rule", "samples"):
            if k not in cov:
                raise MachineryError("evidence lacks coverage.%s" % k)
        if cov["evaluations"] < 1 or cov["distinct_nontrivial"] < 2 or not cov["samples"]:
            raise MachineryError("evidence with empty exploration")


def validate(path):
    ev = json.load(open(path))
    structural_check(ev)
    vt = shutil.which("python3-vt")
    if vt and os.path.exists(SCHEMA):
        code = ("import json,sys,jsonschema;"
                "jsonschema.validate(json.load(open(sys.argv[1])), json.load(open(sys.argv[2])))")
        p = subprocess.run([vt, "-c", code, path, SCHEMA], capture_output=True, text=True)
        if p.returncode != 0:
            raise MachineryError("evidence %s does not validate: %s" % (path, p.stderr[-2000:]))
        return "jsonschema"
    return "structural"


def write(prop, tier, seed, level, acc, meta, wall, n_violations, n_known):
    cov = dict(
        states=int(acc.states), transitions=int(acc.transitions),
        traces_validated_against_impl=int(acc.traces),
        evaluations=int(acc.evaluations), distinct_nontrivial=int(acc.nontrivial),
        rule=meta.get("rule", ""), samples=acc.samples[:12],
        exhaustive=bool(acc.exhaustive), caps_hit=acc.caps,
        outcome_classes=dict(sorted((str(k), v) for k, v in acc.outcomes.items())),
        bound_completed=meta.get("bound", {}).get(tier, ""),
        known_findings_observed=n_known,
    )
    for k, v in sorted(acc.info.items()):
        cov.setdefault(k, v)
    if acc.notes:
        cov["notes"] = acc.notes[:20]
    ev = dict(property_id=prop, tier=tier, seed=int(seed), level=level, coverage=cov,
              assumptions=meta.get("assumptions", []), wall_s=round(wall, 3),
              violations=int(n_violations))
    os.makedirs(os.path.join(VERIF, "evidence"), exist_ok=True)
    path = os.path.join(VERIF, "evidence", "%s.json" % prop)
    tmp = path + ".tmp"
    with open(tmp, "w") as f:
        json.dump(ev, f, indent=1, sort_keys=True, default=repr)
        f.write("\n")
    os.replace(tmp, path)
    return path, validate(path)
