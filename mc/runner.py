"""Runs one property check: exploration, known-finding resolution, replay files, evidence."""
import os, sys, json, argparse, importlib, traceback, time
from . import common, evidence, findings
from .common import VERIF, MachineryError, Acc


class Ctx(object):
    def __init__(self, prop, tier, seed, jobs):
        self.prop, self.tier, self.seed, self.jobs = prop, tier, seed, jobs
        self.acc = Acc()
        self.t = common.Timer()
        self.budget = None

    @property
    def quick(self):
        return self.tier == "quick"

    def pmap(self, fn, items, label=None):
        """fn(item) -> Acc (or anything); Acc results are merged into ctx.acc."""
        res = common.pmap(fn, items, self.jobs, label or self.prop)
        for r in res:
            if isinstance(r, Acc):
                self.acc.merge(r)
        return res

    def log(self, *a):
        print("[%s %s %6.1fs]" % (self.prop, self.tier, self.t()), *a, file=sys.stderr)
        sys.stderr.flush()


def write_replay(prop, tier, rec, meta):
    os.makedirs(os.path.join(VERIF, "replays"), exist_ok=True)
    name = "%s-%s.json" % (prop, common.short_hash(rec["signature"], 10))
    path = os.path.join(VERIF, "replays", name)
    body = dict(property=prop, engine=meta.get("engine", "E1"), tier=tier, signature=rec["signature"],
                case=rec["case"], expected=rec["expected"], observed=rec["observed"],
                standalone=rec.get("standalone"), detail=rec.get("detail"),
                occurrences_in_run=rec["count"])
    with open(path, "w") as f:
        json.dump(body, f, indent=1, sort_keys=True, default=repr)
        f.write("\n")
    return path


def resolve(prop, tier, acc, meta, out=sys.stdout):
    """Print KNOWN-FINDING / VIOLATION lines; returns (n_new, n_known)."""
    known = findings.load()
    n_new = n_known = 0
    seen_known = {}
    for sig in sorted(acc.viol):
        rec = acc.viol[sig]
        f = findings.match(prop, sig, known)
        if f is not None:
            n_known += 1
            seen_known.setdefault(f["id"], [f, 0, sig])
            seen_known[f["id"]][1] += rec["count"]
            write_replay(prop, tier, rec, meta)
            continue
        n_new += 1
        path = write_replay(prop, tier, rec, meta)
        print("VIOLATION property=%s replay=%s" % (prop, path), file=out)
        print("  signature=%s occurrences=%d\n  case=%s\n  expected=%s\n  observed=%s"
              % (sig, rec["count"], common.jdump(rec["case"])[:600],
                 str(rec["expected"])[:400], str(rec["observed"])[:400]), file=out)
    for fid, (f, n, sig) in sorted(seen_known.items()):
        print("KNOWN-FINDING: property=%s %s: %s (%d cases, e.g. signature %s)"
              % (prop, fid, f.get("what", ""), n, sig), file=out)
    out.flush()
    return n_new, n_known


def main(argv):
    ap = argparse.ArgumentParser(prog="check")
    ap.add_argument("prop")
    ap.add_argument("--tier", default=os.environ.get("VERIF_TIER") or "quick", choices=["quick", "thorough"])
    ap.add_argument("--replay", default=None)
    ap.add_argument("--jobs", type=int, default=int(os.environ.get("VERIF_JOBS", "0")) or (os.cpu_count() or 1))
    ap.add_argument("--seed", type=int, default=None)
    ap.add_argument("--no-evidence", action="store_true")
    a = ap.parse_args(argv)
    prop = a.prop.upper()
    try:
        seed = a.seed if a.seed is not None else int(os.environ.get("VERIF_SEED", "0") or 0)
    except ValueError:
        seed = 0
    try:
        mod = importlib.import_module("mc.props.%s" % prop.lower())
    except ImportError as e:
        print("no check for %s: %s" % (prop, e), file=sys.stderr)
        return 2
    except Exception:
        traceback.print_exc()
        print("MACHINERY-ERROR %s: the check module does not import" % prop, file=sys.stderr)
        return 2
    meta = mod.META
    ctx = Ctx(prop, a.tier, seed, a.jobs)
    try:
        if a.replay:
            body = json.load(open(a.replay))
            if body.get("property") != prop:
                raise MachineryError("replay file is for %s" % body.get("property"))
            mod.replay(ctx, body["case"], body.get("signature"))
            still = sorted(ctx.acc.viol)
            for sig in still:
                rec = ctx.acc.viol[sig]
                print("REPRODUCED property=%s signature=%s\n  expected=%s\n  observed=%s"
                      % (prop, sig, str(rec["expected"])[:400], str(rec["observed"])[:400]))
            if not still:
                print("replay: no violation on this tree")
            return 1 if still else 0
        import glob
        for old in glob.glob(os.path.join(VERIF, "replays", "%s-*.json" % prop)):
            os.remove(old)
        if "mc.ref.tables" in sys.modules:
            # the reference tables are chosen once, here (in a forked child), so that every worker inherits the choice
            sys.modules["mc.ref.tables"].reference()
        mod.run(ctx)
        wall = ctx.t()
        n_new, n_known = resolve(prop, a.tier, ctx.acc, meta)
        acc = ctx.acc
        if not a.no_evidence:
            path, how = evidence.write(prop, a.tier, seed, meta.get("level", "model_checking"),
                                       acc, meta, wall, n_new, n_known)
        print("%s %s: states=%d transitions=%d evaluations=%d nontrivial=%d exhaustive=%s "
              "violations=%d known=%d wall=%.1fs" % (prop, a.tier, acc.states, acc.transitions,
              acc.evaluations, acc.nontrivial, acc.exhaustive, n_new, n_known, wall))
        return 1 if n_new else 0
    except MachineryError as e:
        print("MACHINERY-ERROR %s: %s" % (prop, e), file=sys.stderr)
        return 2
    except Exception:
        traceback.print_exc()
        print("MACHINERY-ERROR %s: unexpected exception" % prop, file=sys.stderr)
        return 2
