"""E1: in-process explicit-state breadth-first exploration of the real implementation.

A state is the event history that reaches it: `model.build(hist, acc)` replays the history on
fresh real objects (live objects are mutable and rarely copyable) and runs the oracle (reference
model in lock step, invariants, edge relations), recording violations in `acc`.
`model.canon(state)` is the whole observable state unless the model documents otherwise.
Bounded by depth and, optionally, by a deviation budget (`model.cost(event)`), level by level, so
the first counterexample is the shortest.  Work can be sharded by the first event."""
from .common import Acc


class Model(object):
    name = "model"

    def initial(self):
        return [()]

    def build(self, hist, acc):
        raise NotImplementedError

    def events(self, state, hist):
        raise NotImplementedError

    def canon(self, state):
        raise NotImplementedError

    def cost(self, event):
        return 0

    def nontrivial(self, state, hist):
        return len(hist) > 0

    def describe(self, hist):
        return list(hist)


def bfs(model, depth, acc=None, max_dev=None, first_events=None, state_cap=None):
    """Explore all histories of length <= depth (and total deviation <= max_dev).

    first_events: restrict the first event to this subset (sharding); None = all.
    Returns acc with states / transitions / evaluations / nontrivial counted."""
    acc = acc or Acc()
    seen = set()
    frontier = []
    for h in model.initial():
        h = tuple(h)
        st = model.build(h, acc)
        acc.evaluations += 1
        k = model.canon(st)
        if k in seen:
            continue
        seen.add(k)
        # the root is counted once by the caller when sharding
        if first_events is None:
            acc.states += 1
        frontier.append((h, 0))
    level = 0
    completed = 0
    while frontier and level < depth:
        nxt_frontier = []
        for hist, dev in frontier:
            st = model.build(hist, Acc())      # replay; oracle already ran for this state
            evs = model.events(st, hist)
            for ev in evs:
                if level == 0 and first_events is not None and ev not in first_events:
                    continue
                d = dev + model.cost(ev)
                if max_dev is not None and d > max_dev:
                    continue
                h2 = hist + (ev,)
                st2 = model.build(h2, acc)
                acc.transitions += 1
                acc.evaluations += 1
                k = model.canon(st2)
                if k in seen:
                    acc.count("merged_arrivals")
                    continue
                seen.add(k)
                acc.states += 1
                if model.nontrivial(st2, h2):
                    acc.nontrivial += 1
                if len(acc.samples) < 2 or (acc.states % 9973 == 0):
                    acc.sample(model.describe(h2))
                if state_cap is not None and acc.states >= state_cap:
                    acc.cap("state cap %d reached at depth %d" % (state_cap, level + 1))
                    acc.info["max_depth_completed"] = completed
                    return acc
                nxt_frontier.append((h2, d))
        frontier = nxt_frontier
        level += 1
        completed = level
    acc.info["max_depth_completed"] = max(acc.info.get("max_depth_completed", 0), completed)
    return acc
