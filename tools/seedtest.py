#!/venv/bin/python
"""Evaluate one seeded change:  tools/seedtest.py <dir with patch.diff, demo.py> <PROP> [--tier quick] [--inplace]

1. scratch worktree of /repo HEAD under /tmp/seedtest.<pid>; demo must pass there (exit 0);
2. apply patch.diff; the pinned test suite must still pass (42 passed); demo must now fail;
3. run ./check PROP --no-evidence with VERIF_REPO pointing at the patched scratch tree
   (or, with --inplace, apply the patch to /repo itself, run the registered command, and undo it);
4. remove the scratch worktree.  Prints a JSON summary."""
import os, sys, json, subprocess, shutil, re, time

VERIF = os.path.dirname(os.path.dirname(os.path.abspath(__file__)))


def sh(cmd, cwd=None, env=None, timeout=3600):
    p = subprocess.run(cmd, shell=True, cwd=cwd, env=env, capture_output=True, text=True, timeout=timeout)
    return p.returncode, p.stdout + p.stderr


def main():
    d, prop = sys.argv[1], sys.argv[2]
    tier = "quick"
    if "--tier" in sys.argv:
        tier = sys.argv[sys.argv.index("--tier") + 1]
    inplace = "--inplace" in sys.argv
    d = os.path.abspath(d)
    patch = os.path.join(d, "patch.diff")
    demo = os.path.join(d, "demo.py")
    wt = "/tmp/seedtest.%d" % os.getpid()
    res = dict(dir=d, property=prop, tier=tier)
    rc, out = sh("git -C /repo worktree add --detach %s HEAD -q" % wt)
    if rc:
        print(out); sys.exit(2)
    try:
        env = dict(os.environ, PYTHONDONTWRITEBYTECODE="1")
        rc, out = sh("/venv/bin/python %s" % demo, cwd=wt, env=env)
        res["demo_without_change_rc"] = rc
        rc, out = sh("git apply %s" % patch, cwd=wt)
        if rc:
            rc, out = sh("git apply --3way %s && git reset -q" % patch, cwd=wt)
            if rc == 0:
                res["patch_rebased"] = True
                sh("git diff > %s" % os.path.join(d, "patch.rebased.diff"), cwd=wt)
                patch = os.path.join(d, "patch.rebased.diff")
        res["patch_applies"] = (rc == 0)
        if rc:
            res["patch_error"] = out[-500:]
            print(json.dumps(res, indent=1)); return
        rc, out = sh("/venv/bin/python -m pytest -q -p no:cacheprovider 2>&1 | tail -3", cwd=wt, env=env)
        m = re.search(r"(\d+) passed", out)
        res["tests_passed"] = int(m.group(1)) if m else 0
        res["tests_failed"] = bool(re.search(r"\d+ failed|\d+ error", out))
        rc, out = sh("/venv/bin/python %s" % demo, cwd=wt, env=env)
        res["demo_with_change_rc"] = rc
        res["demo_with_change_tail"] = out[-300:]
        t0 = time.time()
        if inplace:
            rc, out = sh("git -C /repo apply %s" % patch)
            try:
                rc, out = sh("./check %s --tier %s --no-evidence" % (prop, tier), cwd=VERIF)
            finally:
                sh("git -C /repo checkout -- .")
        else:
            env2 = dict(os.environ, VERIF_REPO=wt)
            rc, out = sh("./check %s --tier %s --no-evidence" % (prop, tier), cwd=VERIF, env=env2)
        res["check_rc"] = rc
        res["check_wall_s"] = round(time.time() - t0, 1)
        res["violations"] = re.findall(r"signature=(\S+) occurrences=(\d+)", out)
        res["known_findings"] = len(re.findall(r"^KNOWN-FINDING", out, re.M))
        if rc == 2:
            res["check_error"] = out[-1500:]
        replays = re.findall(r"VIOLATION property=\S+ replay=(\S+)", out)
        if replays and not inplace:
            rc2, out2 = sh("./check %s --replay %s" % (prop, replays[0]), cwd=VERIF, env=dict(os.environ, VERIF_REPO=wt))
            res["replay_on_mutant_rc"] = rc2
            rc3, out3 = sh("./check %s --replay %s" % (prop, replays[0]), cwd=VERIF)
            res["replay_on_repo_rc"] = rc3
    finally:
        sh("git -C /repo worktree remove --force %s" % wt)
        shutil.rmtree(wt, ignore_errors=True)
    print(json.dumps(res, indent=1))


if __name__ == "__main__":
    main()
