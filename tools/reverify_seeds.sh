#!/bin/bash
# Re-run every stored seed against the current /repo HEAD and the current checks (in place).
cd /verif
out=/tmp/reverify.txt; : > $out
for d in seeded/*/; do
  id=$(basename $d); p=${id%%-*}
  [ -n "$1" ] && [[ "$id" != $1* ]] && continue
  grep -q '"retired"' seeded/$id/meta.json && continue
  tools/keep_seed.py seeded/$id $p $id >> $out 2>&1
done
echo DONE >> $out
grep -c "valid detected" $out; grep -v "valid detected" $out
