#!/venv/bin/python
"""Prints the markdown table of seeded changes (DESIGN.md section 12) from seeded/*/meta.json."""
import os, json, glob
HERE = os.path.dirname(os.path.dirname(os.path.abspath(__file__)))
rows = []
for m in sorted(glob.glob(os.path.join(HERE, "seeded", "*", "meta.json"))):
    d = json.load(open(m))
    notes = d.get("summary") or d.get("needs_to_manifest", "").split("\n")[0]
    rows.append((d["id"], d["property"], "yes" if d.get("valid_seed") else "NO",
                 ("caught" if d.get("detected") else "MISSED") + (" (after strengthening)" if d.get("strengthened") else ""),
                 ", ".join("`%s`" % s for s in d.get("detected_by_signatures", [])[:3]), notes[:160].replace("|", "/")))
print("| seed | property | valid (42 tests pass, demo fails/passes) | quick check | first signatures | change |")
print("|---|---|---|---|---|---|")
for r in rows:
    print("| %s | %s | %s | %s | %s | %s |" % r)
