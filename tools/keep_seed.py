#!/venv/bin/python
"""tools/keep_seed.py <src dir> <PROP> <name>: run seedtest, and store the seed under seeded/<name>/ with meta.json."""
import os, sys, json, subprocess, shutil
VERIF = os.path.dirname(os.path.dirname(os.path.abspath(__file__)))
src, prop, name = os.path.abspath(sys.argv[1]), sys.argv[2], sys.argv[3]
extra = sys.argv[4:]
out = subprocess.run([os.path.join(VERIF, "tools", "seedtest.py"), src, prop] + extra, capture_output=True, text=True).stdout
res = json.loads(out)
dst = os.path.join(VERIF, "seeded", name)
os.makedirs(dst, exist_ok=True)
for f in ("patch.diff", "demo.py", "notes.md"):
    if os.path.exists(os.path.join(src, f)) and os.path.realpath(os.path.join(src, f)) != os.path.realpath(os.path.join(dst, f)):
        shutil.copy(os.path.join(src, f), os.path.join(dst, f))
notes = open(os.path.join(src, "notes.md")).read() if os.path.exists(os.path.join(src, "notes.md")) else ""
head = subprocess.run("git -C /repo rev-parse --short HEAD", shell=True, capture_output=True, text=True).stdout.strip()
meta = dict(
    id=name, property=prop, origin="independent sub-agent given only the property text and a scratch worktree",
    repo_commit_tested=head,
    summary=notes.strip().split("\n")[0].lstrip("# ")[:200],
    needs_to_manifest=notes.strip()[:1800],
    what_was_run=[
        "git worktree add of /repo HEAD; demo.py on the clean tree: exit %s" % res.get("demo_without_change_rc"),
        "git apply patch.diff; /venv/bin/python -m pytest -q -p no:cacheprovider: %s passed, failures=%s" % (res.get("tests_passed"), res.get("tests_failed")),
        "demo.py with the change: exit %s" % res.get("demo_with_change_rc"),
        "VERIF_REPO=<patched tree> ./check %s --tier %s --no-evidence: exit %s in %s s" % (prop, res.get("tier"), res.get("check_rc"), res.get("check_wall_s")),
        "replay of the first counterexample on the patched tree: exit %s; on /repo: exit %s" % (res.get("replay_on_mutant_rc"), res.get("replay_on_repo_rc")),
    ],
    detected=(res.get("check_rc") == 1 and bool(res.get("violations"))),
    detected_by_signatures=[v[0] for v in res.get("violations", [])],
    valid_seed=(res.get("tests_passed") == 42 and not res.get("tests_failed") and res.get("demo_without_change_rc") == 0
                and res.get("demo_with_change_rc") not in (0, None)),
)
old = os.path.join(dst, "meta.json")
if os.path.exists(old):
    prev = json.load(open(old))
    for k in ("strengthened", "missed_initially"):
        if k in prev:
            meta[k] = prev[k]
json.dump(meta, open(os.path.join(dst, "meta.json"), "w"), indent=1)
print(name, "valid" if meta["valid_seed"] else "INVALID", "detected" if meta["detected"] else "MISSED", meta["detected_by_signatures"][:4])
