#!/bin/bash
# tools/keep_round.sh <round dir, e.g. /tmp/seed/out3> [PROP ...]: test and store every delivered seed of a round
cd /verif
R=$1; shift
PROPS="$@"
[ -z "$PROPS" ] && PROPS=$(ls $R)
for p in $PROPS; do
  for k in 1 2 3 4; do
    d=$R/$p/$k
    [ -f $d/patch.diff ] || continue
    [ -f $d/.kept ] && continue
    n=1; while [ -d seeded/$p-seed$n ]; do n=$((n+1)); done
    tools/keep_seed.py $d $p $p-seed$n && touch $d/.kept
  done
done
