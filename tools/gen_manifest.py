#!/venv/bin/python
"""Regenerates MANIFEST.json from the property modules that exist (mc/props/cNN.py).
Each module's META carries level, technique, level_text, level_note."""
import os, sys, json, importlib
HERE = os.path.dirname(os.path.dirname(os.path.abspath(__file__)))
sys.path.insert(0, HERE)
props = [json.loads(l) for l in open(os.path.join(HERE, "properties.jsonl"))]
checks, na = [], []
READY = set(open(os.path.join(HERE, "tools", "claimed.txt")).read().split())
for p in props:
    pid = p["id"]
    path = os.path.join(HERE, "mc", "props", pid.lower() + ".py")
    if not os.path.exists(path) or pid not in READY:
        na.append(dict(property_id=pid, reason="check not built yet (design: DESIGN.md section 4, %s); "
                       "the technique applies, the property is simply not claimed until its check exists" % pid))
        continue
    meta = importlib.import_module("mc.props." + pid.lower()).META
    checks.append(dict(
        property_id=pid,
        quick_cmd="./check %s --tier quick" % pid,
        thorough_cmd="./check %s --tier thorough" % pid,
        evidence_file="/verif/evidence/%s.json" % pid,
        replay_cmd_template="./check %s --replay {path}" % pid,
        engine=meta.get("engine", "E1"),
        level_claimed=dict(category=meta.get("level", "model_checking"),
                           text=meta.get("level_text", meta.get("rule", "")),
                           design_ref="DESIGN.md section 4, %s" % pid),
        level_note=meta.get("level_note", "; ".join(meta.get("assumptions", []))),
        technique=meta.get("technique", "explicit-state bounded-exhaustive exploration of the real implementation "
                                        "against a lock-step reference model"),
    ))
man = dict(
    version=1,
    setup_cmd="./setup.sh",
    hooks=dict(guard="PERIODICTABLE_VERIF",
               enable="not used: no instrumentation is needed in the source tree; checks import the working tree "
                      "of /repo (VERIF_REPO) directly with PYTHONDONTWRITEBYTECODE=1",
               baseline_off_cmd="cd /repo && /venv/bin/python -m pytest -ra -q -p no:cacheprovider --timeout=900 "
                                "--continue-on-collection-errors",
               source_commits=[], add_only=True),
    engines=[
        dict(name="E1", path="mc/explore.py", serves_properties=[c["property_id"] for c in checks if c["engine"] == "E1"],
             kind_free_text="in-process explicit-state / bounded-exhaustive explorer over the real implementation "
                            "(state = replayed event history or DFS with undo), lock-step reference models"),
        dict(name="E2", path="mc/histmc.py", serves_properties=[c["property_id"] for c in checks if c["engine"] == "E2"],
             kind_free_text="fork/replay explorer over interpreter histories (zygote + os.fork), heap-shape canonical key "
                            "validated on second representatives, traces replayed in fresh interpreters"),
    ],
    checks=checks,
    not_applicable=na,
    notes="All checks run /venv/bin/python against VERIF_REPO (default /repo). Exit 0 = held on everything explored; "
          "exit 1 + VIOLATION line = new violation; exit 2 = error of the machinery itself. "
          "KNOWN-FINDING lines refer to /verif/known_findings.json.",
)
with open(os.path.join(HERE, "MANIFEST.json"), "w") as f:
    json.dump(man, f, indent=1)
    f.write("\n")
print("claimed:", [c["property_id"] for c in checks]); print("not claimed:", [n["property_id"] for n in na])
