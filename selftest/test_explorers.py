"""Self-tests of the two explorers on toy models with known answers (run by setup.sh)."""
import os, sys
HERE = os.path.dirname(os.path.dirname(os.path.abspath(__file__)))
sys.path.insert(0, HERE)
from mc import explore, histmc
from mc.common import Acc, pmap


# ---- E1: a two-counter machine; states (a, b) with a, b <= 2 -> 9 states
class Counters(explore.Model):
    def __init__(self, planted=False):
        self.planted = planted
    def build(self, hist, acc):
        a = b = 0
        for ev in hist:
            if ev == "a":
                a += 1
            elif ev == "b":
                b += 1
                if self.planted and a == 2:      # planted lost update: b's increment clobbers a
                    a = 0
        if (a, b) != (hist.count("a"), hist.count("b")):
            acc.violation("lost-update", dict(history=list(hist)), (hist.count("a"), hist.count("b")), (a, b))
        return (a, b)
    def events(self, st, hist):
        return [e for e, v in (("a", st[0]), ("b", st[1])) if v < 2]
    def canon(self, st):
        return st


def test_e1():
    acc = explore.bfs(Counters(), depth=4, acc=Acc())
    assert acc.states == 9 and acc.transitions == 12 and not acc.viol, (acc.states, acc.transitions, acc.viol)
    acc = explore.bfs(Counters(planted=True), depth=4, acc=Acc())
    assert "lost-update" in acc.viol
    assert acc.viol["lost-update"]["case"]["history"] == ["a", "a", "b"], acc.viol["lost-update"]["case"]
    # sharding by first event covers the same space
    a1 = explore.bfs(Counters(), depth=4, acc=Acc(), first_events=["a"])
    a2 = explore.bfs(Counters(), depth=4, acc=Acc(), first_events=["b"])
    assert a1.transitions + a2.transitions >= 12


# ---- E2: interpreter-level state (a module global), fork/replay
STATE = dict(x=0, y=0)


class Toy(histmc.HistModel):
    def __init__(self, coarse=False):
        self.coarse = coarse
    def namespace(self):
        return dict(S=STATE)
    def events(self):
        return [histmc.Event("setx", "S['x'] = 1\nS['x']"), histmc.Event("sety", "S['y'] = 1\nS['y']"),
                histmc.Event("sum", "S['x'] + 2*S['y']")]
    def observe(self, ev, ns):
        return repr(histmc.run_code(ev.code, ns))
    def key(self, ns):
        S = ns["S"]
        return "x%d" % S["x"] if self.coarse else "x%dy%d" % (S["x"], S["y"])
    def digest(self, ns, order):
        return (ns["S"]["x"], ns["S"]["y"])


def test_e2():
    ex = histmc.Explorer(Toy(), 4).run(depth=None)
    assert ex.closed and len(ex.rep) == 4, len(ex.rep)
    assert ex.transitions == 12, ex.transitions
    ex.validate_seconds()
    assert not ex.key_conflicts, ex.key_conflicts
    assert STATE == dict(x=0, y=0), "the coordinator executed an event"
    # a too-coarse key (ignores y) must be flagged by the second-representative validation
    ex = histmc.Explorer(Toy(coarse=True), 4).run(depth=None)
    assert len(ex.rep) == 2
    ex.validate_seconds()
    assert ex.key_conflicts, "coarse key not detected"
    assert STATE == dict(x=0, y=0)


def test_pmap():
    assert pmap(lambda x: x * x, range(10), 4) == [x * x for x in range(10)]
    assert pmap(lambda x: os.getpid(), [1], 4, always_fork=True)[0] != os.getpid()


if __name__ == "__main__":
    test_pmap(); test_e1(); test_e2()
    print("selftest ok: E1 (9 states / 12 transitions, planted lost update found at depth 3), "
          "E2 (closure 4 states / 12 transitions, coarse key flagged), pmap")
