#!/bin/sh
set -e
cd "$(dirname "$0")/.."
PYTHONDONTWRITEBYTECODE=1 PYTHONHASHSEED=0 /venv/bin/python selftest/test_explorers.py
