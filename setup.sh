#!/bin/sh
# Offline setup: nothing to build (pure Python); verify interpreter, library import and self-tests.
set -e
cd "$(dirname "$0")"
export PYTHONDONTWRITEBYTECODE=1 PYTHONHASHSEED=0
/venv/bin/python - <<'PY'
import sys, os
sys.path.insert(0, os.getcwd())
from mc import common
pt = common.load_pt()
import numpy, pyparsing
print("periodictable", pt.__version__, "from", pt.__file__)
PY
if [ -x selftest/run.sh ]; then selftest/run.sh; fi
echo "setup ok"
